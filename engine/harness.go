package main

// Harness discovery: /verif/harness/<import path>/zz_*.go carry directives in comments.
//
//   //zx:harness prop=C05 id=C05.M1 [tier=quick|thorough] [mode=fp|real] [shard=name:n] [paths=N]
//   //           [loop=N] [instr=N] [maxconc=N] [solver=cvc5|z3|cvc5-int] [timeout=ms] [symclock=1]
//   //           [fpconv=1] [replay=native|interp] [expect=...] [quick.K=V] [thorough.K=V] [K=V]
//   func zxC05M1() { ... }
//
//   //zx:replace <qualified callee> <harness func>       (file scope; applies to every harness of the file's package
//                                                          whose directive lists the file's replace group, see "env=")
//   //zx:skipinit <qualified init#N>

import (
	"bufio"
	"fmt"
	"os"
	"path/filepath"
	"sort"
	"strconv"
	"strings"
)

const (
	verifRoot   = "/verif"
	harnessRoot = "/verif/harness"
	modulePath  = "github.com/getlantern/zenodb"
)

// repoRoot is /repo; ZX_REPO redirects a run to another checkout (used only to try seeded
// mutants in scratch worktrees without touching /repo; such runs never write evidence).
var repoRoot = func() string {
	if r := os.Getenv("ZX_REPO"); r != "" {
		return r
	}
	return "/repo"
}()

type Harness struct {
	Prop     string            `json:"prop"`
	ID       string            `json:"id"`
	Func     string            `json:"func"`
	Pkg      string            `json:"pkg"`  // import path
	File     string            `json:"file"` // harness file
	Tier     string            `json:"tier"` // quick (runs in both) | thorough
	Mode     string            `json:"mode"` // fp | real
	Shards   []ShardDim        `json:"shards,omitempty"`
	Opts     map[string]string `json:"opts"`
	Env      []string          `json:"env,omitempty"` // replace groups
	Replay   string            `json:"replay"`        // native | interp
	Note     string            `json:"note,omitempty"`
}

type ShardDim struct {
	Name string `json:"name"`
	N    int    `json:"n"`
}

type ReplaceDirective struct {
	Summary bool // a verified summary of a pure callee: does not change the replay grade
	Group  string
	File   string
	Callee string
	Func   string
}

type PkgHarness struct {
	Pkg      string
	Dir      string   // harness dir
	Files    []string // zz_*.go
	Replaces []ReplaceDirective
	SkipInit []string
}

func pkgDirOf(importPath string) string {
	rel := strings.TrimPrefix(importPath, modulePath)
	return filepath.Join(repoRoot, rel)
}

func discover() ([]Harness, map[string]*PkgHarness, error) {
	var hs []Harness
	pkgs := map[string]*PkgHarness{}
	err := filepath.Walk(harnessRoot, func(p string, info os.FileInfo, err error) error {
		if err != nil || info.IsDir() || !strings.HasSuffix(p, ".go") || !strings.HasPrefix(filepath.Base(p), "zz_") {
			return err
		}
		rel, _ := filepath.Rel(harnessRoot, filepath.Dir(p))
		pkg := filepath.ToSlash(rel)
		ph := pkgs[pkg]
		if ph == nil {
			ph = &PkgHarness{Pkg: pkg, Dir: filepath.Dir(p)}
			pkgs[pkg] = ph
		}
		ph.Files = append(ph.Files, p)
		f, err := os.Open(p)
		if err != nil {
			return err
		}
		defer f.Close()
		sc := bufio.NewScanner(f)
		sc.Buffer(make([]byte, 1<<20), 1<<20)
		var pending *Harness
		group := ""
		for sc.Scan() {
			l := strings.TrimSpace(sc.Text())
			switch {
			case strings.HasPrefix(l, "//zx:harness "):
				if pending == nil {
					pending = &Harness{Pkg: pkg, File: p, Tier: "quick", Mode: "fp", Opts: map[string]string{}}
				}
				for _, kv := range strings.Fields(l[len("//zx:harness "):]) {
					i := strings.Index(kv, "=")
					if i < 0 {
						continue
					}
					k, v := kv[:i], kv[i+1:]
					switch k {
					case "prop":
						pending.Prop = v
					case "id":
						pending.ID = v
					case "tier":
						pending.Tier = v
					case "mode":
						pending.Mode = v
					case "shard":
						pending.Opts["shard"] = v
					case "env":
						pending.Env = strings.Split(v, ",")
					case "replay":
						pending.Replay = v
					default:
						pending.Opts[k] = v
					}
				}
			case strings.HasPrefix(l, "//zx:group "):
				group = strings.TrimSpace(l[len("//zx:group "):])
			case strings.HasPrefix(l, "//zx:replace "):
				fs := strings.Fields(l)
				if len(fs) == 3 {
					ph.Replaces = append(ph.Replaces, ReplaceDirective{Group: group, File: p, Callee: fs[1], Func: fs[2]})
				}
			case strings.HasPrefix(l, "//zx:summary "):
				fs := strings.Fields(l)
				if len(fs) == 3 {
					ph.Replaces = append(ph.Replaces, ReplaceDirective{Summary: true, Group: group, File: p, Callee: fs[1], Func: fs[2]})
				}
			case strings.HasPrefix(l, "//zx:skipinit "):
				ph.SkipInit = append(ph.SkipInit, strings.Fields(l)[1])
			case strings.HasPrefix(l, "func ") && pending != nil:
				name := l[5:]
				if i := strings.Index(name, "("); i >= 0 {
					name = name[:i]
				}
				pending.Func = name
				if pending.ID == "" {
					pending.ID = name
				}
				if pending.Replay == "" {
					pending.Replay = "auto"
				}
				for _, pr := range strings.Split(pending.Prop, "+") {
					h := *pending
					h.Prop = pr
					hs = append(hs, h)
				}
				pending = nil
			case strings.HasPrefix(l, "//"):
			default:
				if l != "" && pending != nil {
					return fmt.Errorf("%s: zx:harness directive not followed by a func", p)
				}
			}
		}
		return sc.Err()
	})
	sort.Slice(hs, func(i, j int) bool { return hs[i].ID < hs[j].ID })
	return hs, pkgs, err
}

// opt returns the option value for the tier: "<tier>.<k>" overrides "<k>".
func (h *Harness) opt(tier, k, def string) string {
	if v, ok := h.Opts[tier+"."+k]; ok {
		return v
	}
	if v, ok := h.Opts[k]; ok {
		return v
	}
	return def
}

func (h *Harness) optInt(tier, k string, def int) int {
	v, err := strconv.Atoi(h.opt(tier, k, strconv.Itoa(def)))
	if err != nil {
		return def
	}
	return v
}

// shards returns the shard dimensions for the tier ("shard=a:2,b:3", overridable per tier).
func (h *Harness) shards(tier string) []ShardDim {
	var out []ShardDim
	v := h.opt(tier, "shard", "")
	if v == "" {
		return nil
	}
	for _, part := range strings.Split(v, ",") {
		j := strings.Index(part, ":")
		if j < 0 {
			continue
		}
		n, _ := strconv.Atoi(part[j+1:])
		out = append(out, ShardDim{part[:j], n})
	}
	return out
}

var engineOpts = map[string]bool{"shard": true, "paths": true, "loop": true, "instr": true, "maxconc": true, "solver": true, "timeout": true,
	"symclock": true, "fpconv": true, "expect": true, "maxviol": true, "xcheck": true}

// params are the non-engine options handed to the harness through vrtParam.
func (h *Harness) params(tier string) map[string]int {
	out := map[string]int{}
	for k, v := range h.Opts {
		base := k
		if i := strings.Index(k, "."); i >= 0 {
			if k[:i] != tier {
				continue
			}
			base = k[i+1:]
		} else if _, over := h.Opts[tier+"."+k]; over {
			continue
		}
		if engineOpts[base] {
			continue
		}
		if n, err := strconv.Atoi(v); err == nil {
			out[base] = n
		}
	}
	return out
}
