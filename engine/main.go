package main

import (
	"encoding/json"
	"fmt"
	"os"
	"os/exec"
	"path/filepath"
	"regexp"
	"sort"
	"strconv"
	"strings"
	"sync"
	"time"

	"zx/zi"
)

func usage() int {
	fmt.Fprintln(os.Stderr, `usage:
  zx check <PROP> [--tier quick|thorough] [--only <harness id regexp>] [--jobs N]
  zx replay <replay file>
  zx list
  zx selftest
  zx worker <jobs.json> <outdir>       (internal)`)
	return 2
}

func main() {
	if len(os.Args) < 2 {
		os.Exit(usage())
	}
	os.Setenv("GOFLAGS", "-mod=mod")
	os.Setenv("GOPROXY", "off")
	os.Setenv("GOSUMDB", "off")
	os.Setenv("GOTOOLCHAIN", "local")
	switch os.Args[1] {
	case "check":
		os.Exit(checkMain(os.Args[2:]))
	case "worker":
		os.Exit(workerMain(os.Args[2:]))
	case "replay":
		os.Exit(replayMain(os.Args[2:]))
	case "list":
		hs, _, err := discover()
		if err != nil {
			fmt.Fprintln(os.Stderr, err)
			os.Exit(2)
		}
		for _, h := range hs {
			fmt.Printf("%-6s %-14s %-9s %-5s %s.%s shards=%v\n", h.Prop, h.ID, h.Tier, h.Mode, h.Pkg, h.Func, h.Opts["shard"])
		}
	case "selftest":
		os.Exit(selftestMain())
	default:
		os.Exit(usage())
	}
}

type KnownFinding struct {
	Property string `json:"property"`
	Harness  string `json:"harness"`
	Match    string `json:"match"`
	Note     string `json:"note"`
}

type KnownFile struct {
	Findings []KnownFinding `json:"findings"`
	Fixed    []string       `json:"fixed"`
}

func loadKnown() KnownFile {
	var k KnownFile
	data, err := os.ReadFile(filepath.Join(verifRoot, "known_findings.json"))
	if err == nil {
		json.Unmarshal(data, &k)
	}
	return k
}

func (k KnownFile) match(prop string, v zi.Violation) *KnownFinding {
	for i, f := range k.Findings {
		if f.Property != prop || f.Harness != v.Harness {
			continue
		}
		if ok, _ := regexp.MatchString(f.Match, v.Msg); ok {
			return &k.Findings[i]
		}
	}
	return nil
}

var digits = regexp.MustCompile(`[0-9]+`)

func signature(v zi.Violation) string {
	return v.Harness + "|" + v.Kind + "|" + digits.ReplaceAllString(v.Msg, "#")
}

func selfExe() string {
	p, err := os.Executable()
	if err != nil {
		return os.Args[0]
	}
	return p
}

// runJobs puts the jobs into per-package queues (one file per job) and starts worker processes
// that claim jobs from the queue of their package until it is empty; results are collected from
// the output directory. Heavier jobs (by a rough weight) are queued first.
func runJobs(jobs []Job, maxWorkers int, scratch string) ([]JobResult, error) {
	byPkg := map[string][]Job{}
	var pkgs []string
	for _, j := range jobs {
		if _, ok := byPkg[j.H.Pkg]; !ok {
			pkgs = append(pkgs, j.H.Pkg)
		}
		byPkg[j.H.Pkg] = append(byPkg[j.H.Pkg], j)
	}
	sort.Strings(pkgs)
	total := len(jobs)
	if maxWorkers > total {
		maxWorkers = total
	}
	outdir := filepath.Join(scratch, "out")
	os.MkdirAll(outdir, 0755)
	type wk struct {
		qdir string
		pkg  string
	}
	var workers []wk
	for pi, p := range pkgs {
		js := byPkg[p]
		qdir := filepath.Join(scratch, fmt.Sprintf("q%d", pi))
		os.MkdirAll(qdir, 0755)
		// slow-solver harnesses first
		sort.SliceStable(js, func(a, b int) bool { return jobWeight(js[a]) > jobWeight(js[b]) })
		for ji, j := range js {
			data, _ := json.Marshal([]Job{j})
			os.WriteFile(filepath.Join(qdir, fmt.Sprintf("job%05d", ji)), data, 0644)
		}
		w := len(js) * maxWorkers / total
		if w < 1 {
			w = 1
		}
		if w > len(js) {
			w = len(js)
		}
		for k := 0; k < w; k++ {
			workers = append(workers, wk{qdir, p})
		}
	}
	var wg sync.WaitGroup
	var mu sync.Mutex
	var firstErr error
	for wi, w := range workers {
		wg.Add(1)
		go func(wi int, w wk) {
			defer wg.Done()
			cmd := exec.Command(selfExe(), "worker", "--queue", w.qdir, outdir)
			cmd.Stderr = os.Stderr
			cmd.Stdout = os.Stderr
			if err := cmd.Run(); err != nil {
				mu.Lock()
				if firstErr == nil {
					firstErr = fmt.Errorf("worker %d (%s): %v", wi, w.pkg, err)
				}
				mu.Unlock()
			}
		}(wi, w)
	}
	wg.Wait()
	if firstErr != nil {
		return nil, firstErr
	}
	var results []JobResult
	files, _ := filepath.Glob(filepath.Join(outdir, "*.json"))
	sort.Strings(files)
	for _, f := range files {
		data, err := os.ReadFile(f)
		if err != nil {
			return nil, err
		}
		var r JobResult
		if err := json.Unmarshal(data, &r); err != nil {
			return nil, err
		}
		results = append(results, r)
		os.Remove(f)
	}
	if len(results) != len(jobs) {
		return results, fmt.Errorf("expected %d job results, got %d (a worker crashed)", len(jobs), len(results))
	}
	return results, nil
}

func jobWeight(j Job) int {
	w := 1
	if j.H.opt(j.Tier, "fpconv", "") != "" || j.H.opt(j.Tier, "solver", "") != "" {
		w += 100
	}
	return w
}

var forcePreset map[string]int

func checkMain(args []string) int {
	if len(args) < 1 {
		return usage()
	}
	prop := args[0]
	tier := os.Getenv("VERIF_TIER")
	if tier == "" {
		tier = "quick"
	}
	only := ""
	maxWorkers := 16
	for i := 1; i < len(args); i++ {
		switch args[i] {
		case "--tier":
			i++
			tier = args[i]
		case "--only":
			i++
			only = args[i]
		case "--jobs":
			i++
			maxWorkers, _ = strconv.Atoi(args[i])
		case "--preset":
			i++
			kv := strings.SplitN(args[i], "=", 2)
			v, _ := strconv.Atoi(kv[1])
			if forcePreset == nil {
				forcePreset = map[string]int{}
			}
			forcePreset[kv[0]] = v
		}
	}
	seed, _ := strconv.ParseInt(os.Getenv("VERIF_SEED"), 10, 64)
	t0 := time.Now()
	hs, _, err := discover()
	if err != nil {
		fmt.Fprintln(os.Stderr, "discover:", err)
		return 2
	}
	var sel []Harness
	for _, h := range hs {
		if h.Prop != prop {
			continue
		}
		if tier == "quick" && h.Tier != "quick" {
			continue
		}
		if only != "" {
			if ok, _ := regexp.MatchString(only, h.ID); !ok {
				continue
			}
		}
		sel = append(sel, h)
	}
	if len(sel) == 0 {
		fmt.Fprintf(os.Stderr, "no harness for property %s at tier %s\n", prop, tier)
		return 2
	}
	var jobs []Job
	defer func() {
		_ = forcePreset
	}()
	for _, h := range sel {
		presets := []map[string]int{{}}
		for k, v := range forcePreset {
			presets[0][k] = v
		}
		for _, d := range h.shards(tier) {
			if _, forced := forcePreset[d.Name]; forced {
				continue
			}
			var next []map[string]int
			for _, p := range presets {
				for i := 0; i < d.N; i++ {
					q := map[string]int{}
					for k, v := range p {
						q[k] = v
					}
					q[d.Name] = i
					next = append(next, q)
				}
			}
			presets = next
		}
		for _, p := range presets {
			jobs = append(jobs, Job{H: h, Tier: tier, Seed: seed, Preset: p})
		}
	}
	scratch, err := os.MkdirTemp("", "zx-"+prop+"-")
	if err != nil {
		fmt.Fprintln(os.Stderr, err)
		return 2
	}
	defer os.RemoveAll(scratch)
	results, err := runJobs(jobs, maxWorkers, scratch)
	if err != nil {
		fmt.Fprintln(os.Stderr, "ERROR:", err)
		return 2
	}
	for _, r := range results {
		if r.Error != "" {
			fmt.Printf("ERROR harness=%s preset=%v: %s\n", r.Job.H.ID, r.Job.Preset, r.Error)
			return 2
		}
	}
	return report(prop, tier, seed, sel, results, scratch, t0, only != "" || os.Getenv("ZX_REPO") != "")
}

type harnessSummary struct {
	ID          string         `json:"id"`
	Func        string         `json:"func"`
	Pkg         string         `json:"pkg"`
	Mode        string         `json:"float_mode"`
	Shards      int            `json:"shards"`
	Paths       int            `json:"paths"`
	Infeasible  int            `json:"infeasible_prefixes"`
	Decisions   int            `json:"decisions"`
	Obligations int            `json:"obligations"`
	Discharged  int            `json:"discharged"`
	Violated    int            `json:"violated"`
	Inconcl     int            `json:"inconclusive"`
	BoundHit    []string       `json:"bound_exceeded,omitempty"`
	Reach       map[string]int `json:"reach"`
	Queries     int            `json:"solver_queries"`
	SolverMs    int64          `json:"solver_ms"`
	Solver      string         `json:"solver"`
	Replaced    []string       `json:"stubs_replaced,omitempty"`
	Params      map[string]int `json:"params,omitempty"`
	WallMs      int64          `json:"wall_ms"`
}

func report(prop, tier string, seed int64, sel []Harness, results []JobResult, scratch string, t0 time.Time, partial bool) int {
	known := loadKnown()
	sums := map[string]*harnessSummary{}
	var order []string
	funcs := map[string]int{}
	var allViol []zi.Violation
	var inconcl []zi.Inconclusive
	var samples []interface{}
	reachModels := map[string]zi.Violation{}
	hByID := map[string]Harness{}
	for _, h := range sel {
		hByID[h.ID] = h
	}
	totalQueries, totalSolverMs := 0, int64(0)
	solverErrs := 0
	solverCrashes := 0
	for _, r := range results {
		h := r.Job.H
		s := sums[h.ID]
		if s == nil {
			s = &harnessSummary{ID: h.ID, Func: h.Func, Pkg: h.Pkg, Mode: h.Mode, Reach: map[string]int{}, Params: h.params(tier)}
			sums[h.ID] = s
			order = append(order, h.ID)
		}
		s.Shards++
		s.Paths += r.Paths
		s.Infeasible += r.Infeasible
		s.Decisions += r.Decisions
		s.Obligations += r.Asserts
		s.Discharged += r.Proved
		s.Violated += len(r.Viol)
		s.Inconcl += len(r.Inconcl)
		s.BoundHit = append(s.BoundHit, r.BoundHit...)
		for k, v := range r.Reach {
			s.Reach[k] += v
		}
		s.Queries += r.SolverCalls
		s.SolverMs += r.SolverMs
		s.Solver = r.Solver
		s.Replaced = r.Replaced
		s.WallMs += r.WallMs
		totalQueries += r.SolverCalls
		totalSolverMs += r.SolverMs
		solverErrs += r.SolverErrs
		for k, v := range r.Funcs {
			funcs[k] += v
		}
		for _, v := range r.Viol {
			vv := v
			allViol = append(allViol, vv)
		}
		inconcl = append(inconcl, r.Inconcl...)
		for k, v := range r.ReachModels {
			if _, ok := reachModels[k]; !ok {
				reachModels[k] = v
			}
		}
		for _, sm := range r.Samples {
			if len(samples) < 6 {
				samples = append(samples, map[string]interface{}{"harness": h.ID, "preset": r.Job.Preset, "inputs_of_one_explored_path": sm})
			}
		}
	}
	// vacuity: every harness must have reached each of its reach points on some path
	var vacuous []string
	for _, id := range order {
		s := sums[id]
		if len(s.Reach) == 0 {
			vacuous = append(vacuous, id)
		}
	}
	// group violations, match known findings, replay the rest
	type group struct {
		sig   string
		viols []zi.Violation
		known *KnownFinding
	}
	groups := map[string]*group{}
	var gorder []string
	for _, v := range allViol {
		sig := signature(v)
		g := groups[sig]
		if g == nil {
			g = &group{sig: sig, known: known.match(prop, v)}
			groups[sig] = g
			gorder = append(gorder, sig)
		}
		g.viols = append(g.viols, v)
	}
	exit := 0
	replayed, reproduced, spurious := 0, 0, 0
	knownPrinted := map[string]bool{}
	var violationLines []string
	var knownLines []string
	replayDir := filepath.Join(verifRoot, "replays", prop)
	for _, sig := range gorder {
		g := groups[sig]
		h := hByID[g.viols[0].Harness]
		// replay up to 2 models of the group
		n := len(g.viols)
		if n > 2 {
			n = 2
		}
		confirmed := -1
		var confirmedPath string
		for i := 0; i < n; i++ {
			rf := ReplayFile{Property: prop, Harness: h, Tier: tier, Violation: g.viols[i], Real: h.Mode == "real", Params: h.params(tier)}
			replayed++
			ok, grade, detail := doReplay(rf, scratch)
			if ok {
				reproduced++
				confirmed = i
				rf.Grade, rf.Detail = grade, detail
				if g.known == nil {
					os.MkdirAll(replayDir, 0755)
					confirmedPath = filepath.Join(replayDir, fmt.Sprintf("%s-%d.json", strings.ReplaceAll(h.ID, "/", "_"), len(violationLines)+1))
					data, _ := json.MarshalIndent(rf, "", " ")
					os.WriteFile(confirmedPath, data, 0644)
				}
				break
			}
			spurious++
			if d := os.Getenv("ZX_KEEP_SPURIOUS"); d != "" {
				data, _ := json.MarshalIndent(rf, "", " ")
				os.WriteFile(filepath.Join(d, fmt.Sprintf("spurious-%s-%d.json", strings.ReplaceAll(h.ID, "/", "_"), spurious)), data, 0644)
			}
		}
		if confirmed < 0 {
			fmt.Printf("INCONCLUSIVE harness=%s: model did not reproduce on replay (counted as spurious): %s\n", h.ID, g.viols[0].Msg)
			continue
		}
		if g.known != nil {
			key := g.known.Harness + "|" + g.known.Match
			if !knownPrinted[key] {
				knownPrinted[key] = true
				line := fmt.Sprintf("KNOWN-FINDING: property=%s harness=%s %s (e.g. %s)", prop, g.known.Harness, g.known.Note, g.viols[confirmed].Msg)
				knownLines = append(knownLines, line)
				fmt.Println(line)
			}
			continue
		}
		exit = 1
		line := fmt.Sprintf("VIOLATION property=%s replay=%s", prop, confirmedPath)
		violationLines = append(violationLines, line)
		fmt.Printf("%s harness=%s kind=%s msg=%q (%d model(s) with this signature)\n", line, h.ID, g.viols[confirmed].Kind, g.viols[confirmed].Msg, len(g.viols))
	}
	for _, ic := range inconcl {
		fmt.Printf("INCONCLUSIVE harness=%s path=%d: %s\n", ic.Harness, ic.Path, ic.Msg)
	}
	for _, id := range order {
		for _, b := range sums[id].BoundHit {
			fmt.Printf("INCONCLUSIVE harness=%s: bound exceeded, obligation not discharged: %s\n", id, b)
		}
	}
	for _, id := range vacuous {
		fmt.Printf("INCONCLUSIVE harness=%s: VACUOUS, no path reaches the end of the harness\n", id)
	}
	// reach witnesses replayed (validates that the harness end is reachable natively too)
	witnessChecked := 0
	if exit == 0 && os.Getenv("ZX_NO_WITNESS") == "" {
		witnessChecked = replayWitnesses(prop, tier, hByID, reachModels, scratch)
	}
	// evidence
	obl, dis, paths, decisions := 0, 0, 0, 0
	var hsum []interface{}
	for _, id := range order {
		s := sums[id]
		obl += s.Obligations
		dis += s.Discharged
		paths += s.Paths
		decisions += s.Decisions
		hsum = append(hsum, s)
		fmt.Printf("  %-12s shards=%-3d paths=%-6d obligations=%-7d discharged=%-7d violated=%-3d inconclusive=%-3d queries=%-7d solver=%.1fs wall=%.1fs\n",
			id, s.Shards, s.Paths, s.Obligations, s.Discharged, s.Violated, s.Inconcl, s.Queries, float64(s.SolverMs)/1000, float64(s.WallMs)/1000)
	}
	var fnames []string
	for k := range funcs {
		fnames = append(fnames, k)
	}
	sort.Strings(fnames)
	var fenc []string
	for _, k := range fnames {
		fenc = append(fenc, fmt.Sprintf("%s ×%d", k, funcs[k]))
	}
	if len(samples) == 0 {
		samples = append(samples, map[string]interface{}{"note": "no symbolic inputs on any completed path"})
	}
	level := "model_checking"
	if prop == "C11" {
		level = "translation_validation"
	}
	if paths < 1 {
		paths = 1
	}
	if decisions < 1 {
		decisions = 1
	}
	cov := map[string]interface{}{
		"states":                        paths,
		"transitions":                   decisions,
		"traces_validated_against_impl": reproduced + witnessChecked,
		"samples":                       samples,
		"evaluations":                   totalQueries,
		"distinct_nontrivial":           dis,
		"rule":                          "states = distinct feasible execution paths of the real SSA code (one per decision vector); transitions = solver-decided branch/concretisation decisions; evaluations = SMT queries; distinct_nontrivial = obligations (vrtAssert / freeze monitor / panic-freedom) discharged as unsat under a satisfiable path condition",
		"obligations":                   obl,
		"discharged":                    dis,
		"inconclusive":                  len(inconcl),
		"vacuous_harnesses":             vacuous,
		"violations_known":              knownLines,
		"violations_new":                violationLines,
		"models_replayed":               replayed,
		"models_reproduced":             reproduced,
		"spurious_models":               spurious,
		"reach_witnesses_replayed":      witnessChecked,
		"solver_queries":                totalQueries,
		"solver_seconds":                float64(totalSolverMs) / 1000,
		"solver_errors":                 solverErrs,
		"solver_crashes_recovered":      solverCrashes,
		"harnesses":                     hsum,
		"functions_encoded":             fenc,
		"partial_run":                   partial,
		"trusted_base": []string{"go/packages + go/ssa (x/tools v0.29.0): the SSA of /repo's working tree is what is executed",
			"zx interpreter fork of go/ssa/interp and its term builder", "engine models: time.Time, math, sync, fmt, golog (DESIGN §3.5-3.6)", "cvc5 1.0 / z3 4.8.12", "harness oracles"},
	}
	if level == "translation_validation" {
		cov["programs"] = len(order)
		cov["disagreements_checked"] = replayed
	}
	ev := map[string]interface{}{
		"property_id": prop,
		"tier":        tier,
		"seed":        seed,
		"level":       level,
		"coverage":    cov,
		"assumptions": []string{"bounds as listed per harness in coverage.harnesses[].params and in DESIGN.md §5; nothing is claimed outside them",
			"package-level state of the code under test is not mutated after init (inits run once per harness instance)",
			"times in [2^40, 2^62) ns; float inputs finite where a harness says so; real-mode harnesses compare values up to floating-point reassociation"},
		"wall_s":     time.Since(t0).Seconds(),
		"violations": len(violationLines),
	}
	if !partial {
		os.MkdirAll(filepath.Join(verifRoot, "evidence"), 0755)
		data, _ := json.MarshalIndent(ev, "", " ")
		if err := os.WriteFile(filepath.Join(verifRoot, "evidence", prop+".json"), data, 0644); err != nil {
			fmt.Fprintln(os.Stderr, err)
			return 2
		}
	}
	fmt.Printf("%s tier=%s: harnesses=%d paths=%d obligations=%d discharged=%d known=%d new=%d inconclusive=%d queries=%d solver=%.1fs wall=%.1fs\n",
		prop, tier, len(order), paths, obl, dis, len(knownLines), len(violationLines), len(inconcl)+len(vacuous), totalQueries, float64(totalSolverMs)/1000, time.Since(t0).Seconds())
	return exit
}
