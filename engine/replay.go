package main

import (
	"bytes"
	"context"
	"encoding/json"
	"fmt"
	"os"
	"os/exec"
	"path/filepath"
	"sort"
	"strings"
	"time"

	"zx/zi"
)

// ReplayFile is what `VIOLATION ... replay=<path>` points at.
type ReplayFile struct {
	Property  string         `json:"property"`
	Harness   Harness        `json:"harness"`
	Tier      string         `json:"tier"`
	Violation zi.Violation   `json:"violation"`
	Real      bool           `json:"real"`
	Params    map[string]int `json:"params"`
	Grade     string         `json:"replay_grade"` // R1 = native go test, R2 = concrete re-execution in the interpreter
	Detail    string         `json:"replay_detail"`
	HowTo     string         `json:"how_to_replay,omitempty"`
}

func hasReplacements(h Harness, ph *PkgHarness) bool {
	// a symbolic clock is an environment stub too: the compiled harness reads the machine's clock,
	// so a counterexample that depends on clock readings only reproduces in the interpreter
	if h.opt("quick", "symclock", "") != "" {
		return true
	}
	envs := map[string]bool{}
	for _, e := range h.Env {
		envs[e] = true
	}
	for _, r := range ph.Replaces {
		if r.Summary {
			continue
		}
		if (r.Group != "" && envs[r.Group]) || (r.Group == "" && r.File == h.File) {
			return true
		}
	}
	return false
}

type nativeItem struct {
	Func   string
	Vector string // path
}

type nativeResult struct {
	Failures   []string
	Reached    []string
	Infeasible bool
	Ran        bool
}

// nativeReplay compiles the package's harness files natively (go test -overlay) and runs the
// listed (harness, vector) pairs against the real code.
func nativeReplay(pkg string, items []nativeItem, scratch string) ([]nativeResult, string, error) {
	_, pkgs, err := discover()
	if err != nil {
		return nil, "", err
	}
	ph := pkgs[pkg]
	dir, err := os.MkdirTemp(scratch, "native-")
	if err != nil {
		return nil, "", err
	}
	ov, err := overlayFor(ph)
	if err != nil {
		return nil, "", err
	}
	repl := map[string]string{}
	pkgName := ""
	for virt, src := range ov {
		real := filepath.Join(dir, filepath.Base(virt))
		if err := os.WriteFile(real, src, 0644); err != nil {
			return nil, "", err
		}
		repl[virt] = real
		if pkgName == "" {
			for _, l := range strings.Split(string(src), "\n") {
				if strings.HasPrefix(l, "package ") {
					pkgName = strings.TrimSpace(l[8:])
					break
				}
			}
		}
	}
	hs, _, _ := discover()
	var reg []string
	seen := map[string]bool{}
	for _, h := range hs {
		if h.Pkg == pkg && !seen[h.Func] {
			seen[h.Func] = true
			reg = append(reg, fmt.Sprintf("\t%q: %s,", h.Func, h.Func))
		}
	}
	sort.Strings(reg)
	test := fmt.Sprintf(`package %s

import (
	"bufio"
	"fmt"
	"os"
	"strings"
	"testing"
)

var zxRegistry = map[string]func(){
%s
}

func TestZxReplay(t *testing.T) {
	f, err := os.Open(os.Getenv("ZX_REPLAY_LIST"))
	if err != nil {
		t.Fatal(err)
	}
	defer f.Close()
	sc := bufio.NewScanner(f)
	n := 0
	for sc.Scan() {
		fs := strings.Fields(sc.Text())
		if len(fs) != 2 {
			continue
		}
		fn := zxRegistry[fs[0]]
		if fn == nil {
			t.Fatalf("no harness %%s", fs[0])
		}
		if err := vrtLoad(fs[1]); err != nil {
			t.Fatal(err)
		}
		infeasible := false
		func() {
			defer func() {
				if r := recover(); r != nil {
					if _, ok := r.(vrtInfeasible); ok {
						infeasible = true
						return
					}
					vrtFailures = append(vrtFailures, fmt.Sprint("uncaught Go panic: ", r))
				}
			}()
			fn()
			vrtCheckFrozen()
		}()
		fmt.Printf("ZXREPLAY %%d infeasible=%%v failures=%%d reached=%%s\n", n, infeasible, len(vrtFailures), strings.Join(vrtReached, ","))
		for _, m := range vrtFailures {
			fmt.Printf("ZXFAIL %%d %%s\n", n, strings.ReplaceAll(m, "\n", " "))
		}
		n++
	}
}
`, pkgName, strings.Join(reg, "\n"))
	testVirt := filepath.Join(pkgDirOf(pkg), "zz_replay_test.go")
	testReal := filepath.Join(dir, "zz_replay_test.go")
	os.WriteFile(testReal, []byte(test), 0644)
	repl[testVirt] = testReal
	ovj, _ := json.Marshal(map[string]interface{}{"Replace": repl})
	ovPath := filepath.Join(dir, "overlay.json")
	os.WriteFile(ovPath, ovj, 0644)
	var list bytes.Buffer
	for _, it := range items {
		fmt.Fprintf(&list, "%s %s\n", it.Func, it.Vector)
	}
	listPath := filepath.Join(dir, "list.txt")
	os.WriteFile(listPath, list.Bytes(), 0644)
	ctx, cancel := context.WithTimeout(context.Background(), 10*time.Minute)
	defer cancel()
	cmd := exec.CommandContext(ctx, "go", "test", "-vet=off", "-count=1", "-tags=noasm", "-overlay", ovPath, "-run", "^TestZxReplay$", "-v", pkg)
	cmd.Dir = repoRoot
	cmd.Env = append(os.Environ(), "ZX_REPLAY_LIST="+listPath)
	out, runErr := cmd.CombinedOutput()
	res := make([]nativeResult, len(items))
	for _, l := range strings.Split(string(out), "\n") {
		l = strings.TrimSpace(l)
		var n int
		if strings.HasPrefix(l, "ZXREPLAY ") {
			var inf bool
			var nf int
			var reached string
			fmt.Sscanf(l, "ZXREPLAY %d infeasible=%t failures=%d reached=%s", &n, &inf, &nf, &reached)
			if n < len(res) {
				res[n].Ran = true
				res[n].Infeasible = inf
				if reached != "" {
					res[n].Reached = strings.Split(reached, ",")
				}
			}
		} else if strings.HasPrefix(l, "ZXFAIL ") {
			rest := l[7:]
			i := strings.Index(rest, " ")
			fmt.Sscanf(rest[:i], "%d", &n)
			if n < len(res) {
				res[n].Failures = append(res[n].Failures, rest[i+1:])
			}
		}
	}
	if runErr != nil {
		ran := false
		for _, r := range res {
			ran = ran || r.Ran
		}
		if !ran {
			return res, string(out), fmt.Errorf("native replay build/run failed: %v", runErr)
		}
	}
	return res, string(out), nil
}

func writeVector(path string, model map[string]string, params map[string]int, real bool) error {
	data, _ := json.Marshal(map[string]interface{}{"model": model, "params": params, "real": real})
	return os.WriteFile(path, data, 0644)
}

// interpReplay re-executes the harness concretely in the interpreter with the model's values.
func interpReplay(h Harness, tier string, model map[string]string, scratch string) (*JobResult, error) {
	dir, err := os.MkdirTemp(scratch, "interp-")
	if err != nil {
		return nil, err
	}
	if model == nil {
		model = map[string]string{}
	}
	rs, err := runJobs([]Job{{H: h, Tier: tier, Replay: model}}, 1, dir)
	if err != nil {
		return nil, err
	}
	return &rs[0], nil
}

// doReplay reproduces a violation against the real code; returns (reproduced, grade, detail).
func doReplay(rf ReplayFile, scratch string) (bool, string, string) {
	_, pkgs, err := discover()
	if err != nil {
		return false, "", err.Error()
	}
	h := rf.Harness
	ph := pkgs[h.Pkg]
	native := h.Replay == "native" || (h.Replay == "auto" && !hasReplacements(h, ph))
	if native {
		vec := filepath.Join(scratch, fmt.Sprintf("vec-%d.json", time.Now().UnixNano()))
		writeVector(vec, rf.Violation.Model, rf.Params, rf.Real)
		res, out, err := nativeReplay(h.Pkg, []nativeItem{{h.Func, vec}}, scratch)
		if err != nil {
			if os.Getenv("ZX_DEBUG") != "" {
				fmt.Fprintln(os.Stderr, out)
			}
			return false, "R1", err.Error()
		}
		if len(res[0].Failures) > 0 {
			return true, "R1", "native go test -overlay: " + strings.Join(res[0].Failures, "; ")
		}
		if res[0].Infeasible {
			return false, "R1", "native run: assumption not satisfied by the model"
		}
		return false, "R1", "native run passed"
	}
	r, err := interpReplay(h, rf.Tier, rf.Violation.Model, scratch)
	if err != nil {
		return false, "R2", err.Error()
	}
	if r.Error != "" {
		return false, "R2", r.Error
	}
	if len(r.Viol) > 0 {
		var ms []string
		for _, v := range r.Viol {
			ms = append(ms, v.Msg)
		}
		return true, "R2", "concrete re-execution in the interpreter (environment stubs cannot be substituted natively): " + strings.Join(ms, "; ")
	}
	return false, "R2", "concrete re-execution passed"
}

// replayWitnesses replays one reach witness per harness (vacuity guard, DESIGN §3.10).
func replayWitnesses(prop, tier string, hByID map[string]Harness, models map[string]zi.Violation, scratch string) int {
	_, pkgs, err := discover()
	if err != nil {
		return 0
	}
	type item struct {
		h  Harness
		id string
		m  zi.Violation
	}
	byPkg := map[string][]item{}
	var interp []item
	var ids []string
	for id := range models {
		ids = append(ids, id)
	}
	sort.Strings(ids)
	seenH := map[string]int{}
	for _, id := range ids {
		m := models[id]
		h, ok := hByID[m.Harness]
		if !ok {
			continue
		}
		native := h.Replay == "native" || (h.Replay == "auto" && !hasReplacements(h, pkgs[h.Pkg]))
		// one witness per harness, plus up to two further path samples where replay is native
		// (not in real mode: a model over the reals need not satisfy the harness assumptions
		// once its values are rounded to float64)
		if seenH[h.ID] >= 1 && (!native || h.Mode == "real" || seenH[h.ID] >= 3 || !strings.Contains(id, "#p")) {
			continue
		}
		seenH[h.ID]++
		if native {
			byPkg[h.Pkg] = append(byPkg[h.Pkg], item{h, id, m})
		} else {
			interp = append(interp, item{h, id, m})
		}
	}
	ok := 0
	for pkg, its := range byPkg {
		var nis []nativeItem
		for i, it := range its {
			vec := filepath.Join(scratch, fmt.Sprintf("wit-%s-%d.json", filepath.Base(pkg), i))
			writeVector(vec, it.m.Model, it.h.params(tier), it.h.Mode == "real")
			nis = append(nis, nativeItem{it.h.Func, vec})
		}
		res, out, err := nativeReplay(pkg, nis, scratch)
		if err != nil {
			fmt.Printf("INCONCLUSIVE witness replay for %s failed to run: %v\n", pkg, err)
			if os.Getenv("ZX_DEBUG") != "" {
				fmt.Fprintln(os.Stderr, out)
			}
			continue
		}
		for i, r := range res {
			switch {
			case !r.Ran:
				fmt.Printf("INCONCLUSIVE harness=%s: reach witness did not run natively\n", its[i].h.ID)
			case len(r.Failures) > 0:
				fmt.Printf("INCONCLUSIVE harness=%s: reach witness fails natively although the engine proved its path: %s\n", its[i].h.ID, strings.Join(r.Failures, "; "))
			case r.Infeasible || len(r.Reached) == 0:
				fmt.Printf("INCONCLUSIVE harness=%s: reach witness does not reach the end natively (infeasible=%v)\n", its[i].h.ID, r.Infeasible)
			default:
				ok++
			}
		}
	}
	for _, it := range interp {
		r, err := interpReplay(it.h, tier, it.m.Model, scratch)
		if err != nil || r.Error != "" || len(r.Viol) > 0 || len(r.Reach) == 0 {
			msg := ""
			if err != nil {
				msg = err.Error()
			} else if r.Error != "" {
				msg = r.Error
			} else if len(r.Viol) > 0 {
				msg = "violations: " + r.Viol[0].Msg
			} else {
				msg = "end not reached"
			}
			fmt.Printf("INCONCLUSIVE harness=%s: reach witness not confirmed by concrete re-execution: %s\n", it.h.ID, msg)
			if os.Getenv("ZX_DEBUG") != "" {
				mj, _ := json.Marshal(it.m.Model)
				fmt.Fprintln(os.Stderr, "witness model:", string(mj))
			}
			continue
		}
		ok++
	}
	return ok
}

func replayMain(args []string) int {
	if len(args) < 1 {
		return usage()
	}
	data, err := os.ReadFile(args[0])
	if err != nil {
		fmt.Fprintln(os.Stderr, err)
		return 2
	}
	var rf ReplayFile
	if err := json.Unmarshal(data, &rf); err != nil {
		fmt.Fprintln(os.Stderr, err)
		return 2
	}
	scratch, _ := os.MkdirTemp("", "zx-replay-")
	defer os.RemoveAll(scratch)
	ok, grade, detail := doReplay(rf, scratch)
	fmt.Printf("replay grade=%s reproduced=%v: %s\n", grade, ok, detail)
	if ok {
		fmt.Printf("VIOLATION property=%s replay=%s\n", rf.Property, args[0])
		return 1
	}
	return 0
}

func selftestMain() int {
	return selftest()
}
