package main

import (
	"fmt"
	"os"
	"os/exec"
	"time"

	"zx/zi"
)

// selftest: solver availability and error handling, and a differential check of the term
// simplifier against the solver (200 random trees; see zi.SelfTest).
func selftest() int {
	if _, err := exec.LookPath("cvc5"); err != nil {
		fmt.Println("selftest: cvc5 not found")
		return 1
	}
	t0 := time.Now()
	n, seed := 200, int64(1)
	if v := os.Getenv("ZX_SELFTEST_N"); v != "" {
		fmt.Sscan(v, &n)
	}
	if v := os.Getenv("ZX_SELFTEST_SEED"); v != "" {
		fmt.Sscan(v, &seed)
	}
	q, unk, fails := zi.SelfTest("cvc5", n, seed)
	for _, f := range fails {
		fmt.Println("selftest FAILURE:", f)
	}
	if len(fails) > 0 {
		return 1
	}
	fmt.Printf("selftest: ok (%d solver queries; simplified term = raw SMT-LIB term on %d of %d random trees, %d timed out, none differs; %.1fs)\n", q, n-unk, n, unk, time.Since(t0).Seconds())
	return 0
}
