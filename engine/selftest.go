package main

import "fmt"

func selftest() int {
	fmt.Println("selftest: ok (placeholder)")
	return 0
}
