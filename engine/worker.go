package main

import (
	"encoding/json"
	"fmt"
	"os"
	"path/filepath"
	"runtime"
	"runtime/debug"
	"sort"
	"strings"
	"time"

	"golang.org/x/tools/go/packages"
	"golang.org/x/tools/go/ssa"
	"golang.org/x/tools/go/ssa/ssautil"

	"zx/zi"
)

// Job is one harness instance (one shard) to be explored by a worker.
type Job struct {
	H       Harness           `json:"h"`
	Tier    string            `json:"tier"`
	Preset  map[string]int    `json:"preset,omitempty"`
	Replay  map[string]string `json:"replay,omitempty"` // concrete re-execution of a model (R2)
	Seed    int64             `json:"seed"`
}

type JobResult struct {
	Job         Job                     `json:"job"`
	Paths       int                     `json:"paths"`
	Infeasible  int                     `json:"infeasible"`
	Decisions   int                     `json:"decisions"`
	Asserts     int                     `json:"asserts"`
	Proved      int                     `json:"proved"`
	Implied     int                     `json:"implied"`
	Viol        []zi.Violation          `json:"violations"`
	Inconcl     []zi.Inconclusive       `json:"inconclusive"`
	BoundHit    []string                `json:"bound_hit"`
	Reach       map[string]int          `json:"reach"`
	ReachModels map[string]zi.Violation `json:"reach_models"`
	Samples     []map[string]string     `json:"samples"`
	SolverCalls int                     `json:"solver_calls"`
	SolverMs    int64                   `json:"solver_ms"`
	SolverRes   map[string]int          `json:"solver_results"`
	SolverErrs  int                     `json:"solver_errors"`
	SolverCrash int                     `json:"solver_crashes"`
	Solver      string                  `json:"solver"`
	Funcs       map[string]int          `json:"funcs"`
	Replaced    []string                `json:"replaced"`
	WallMs      int64                   `json:"wall_ms"`
	LoadMs      int64                   `json:"load_ms"`
	Error       string                  `json:"error,omitempty"`
}

var initAllow = map[string]bool{}

func init() {
	for _, a := range strings.Split("io,strconv,unicode,unicode/utf8,unicode/utf16,sort,strings,bytes,math,math/bits,regexp,regexp/syntax,encoding/binary,"+
		"github.com/getlantern/sqlparser,github.com/getlantern/sqlparser/dependency/sqltypes,github.com/getlantern/goexpr,github.com/getlantern/bytemap,"+
		"github.com/getlantern/wal,github.com/getlantern/vtime,container/heap,container/list,io/ioutil,hash/crc32,encoding/hex,encoding/base64,"+
		"google.golang.org/grpc/metadata,google.golang.org/grpc/codes,path,path/filepath,io/fs,internal/oserror,internal/bytealg,golang.org/x/net/context,context", ",") {
		initAllow[a] = true
	}
}

type loaded struct {
	prog *ssa.Program
	pkg  *ssa.Package
	ppkg *packages.Package
}

func overlayFor(ph *PkgHarness) (map[string][]byte, error) {
	ov := map[string][]byte{}
	dir := pkgDirOf(ph.Pkg)
	pkgName := ""
	for _, f := range ph.Files {
		src, err := os.ReadFile(f)
		if err != nil {
			return nil, err
		}
		ov[filepath.Join(dir, filepath.Base(f))] = src
		if pkgName == "" {
			for _, l := range strings.Split(string(src), "\n") {
				if strings.HasPrefix(l, "package ") {
					pkgName = strings.TrimSpace(l[8:])
					break
				}
			}
		}
	}
	tmpl, err := os.ReadFile(filepath.Join(harnessRoot, "vrt_native.go.tmpl"))
	if err != nil {
		return nil, err
	}
	ov[filepath.Join(dir, "zz_vrt.go")] = []byte(strings.Replace(string(tmpl), "PKGNAME", pkgName, 1))
	return ov, nil
}

func loadPkg(ph *PkgHarness) (*loaded, error) {
	ov, err := overlayFor(ph)
	if err != nil {
		return nil, err
	}
	cfg := &packages.Config{Mode: packages.LoadAllSyntax, Dir: repoRoot, BuildFlags: []string{"-tags=noasm"}, Overlay: ov,
		Env: append(os.Environ(), "GOFLAGS=-mod=mod", "GOPROXY=off", "GOSUMDB=off", "GOTOOLCHAIN=local")}
	initial, err := packages.Load(cfg, ph.Pkg)
	if err != nil {
		return nil, err
	}
	var errs []string
	packages.Visit(initial, nil, func(p *packages.Package) {
		for _, e := range p.Errors {
			errs = append(errs, e.Error())
		}
	})
	if len(errs) > 0 {
		if len(errs) > 12 {
			errs = errs[:12]
		}
		return nil, fmt.Errorf("harness does not compile against the current tree:\n  %s", strings.Join(errs, "\n  "))
	}
	prog, pkgs := ssautil.AllPackages(initial, ssa.InstantiateGenerics)
	prog.Build()
	return &loaded{prog: prog, pkg: pkgs[0], ppkg: initial[0]}, nil
}

// resolveFunc finds a function or method by its ssa String() name.
func resolveFuncs(prog *ssa.Program, names map[string]bool) map[string]*ssa.Function {
	out := map[string]*ssa.Function{}
	for fn := range ssautil.AllFunctions(prog) {
		if names[fn.String()] {
			out[fn.String()] = fn
		}
	}
	return out
}

func runJob(ld *loaded, ph *PkgHarness, job Job) (res JobResult) {
	t0 := time.Now()
	res.Job = job
	h := job.H
	defer func() {
		res.WallMs = time.Since(t0).Milliseconds()
		if r := recover(); r != nil {
			res.Error = fmt.Sprint(r)
		}
	}()
	tier := job.Tier
	zi.ResetAll(h.Mode == "real")
	zi.InitAllowed = func(p string) bool {
		if strings.HasPrefix(p, modulePath+"/cmd") {
			return false // command-line flag definitions (package flag is not initialised)
		}
		return strings.HasPrefix(p, modulePath) || initAllow[p]
	}
	zi.SkipInit = map[string]bool{modulePath + ".init#1": true}
	for _, s := range ph.SkipInit {
		zi.SkipInit[s] = true
	}
	// replacements
	zi.Replacements = map[string]*ssa.Function{}
	envs := map[string]bool{}
	for _, e := range h.Env {
		envs[e] = true
	}
	for _, r := range ph.Replaces {
		if (r.Group != "" && envs[r.Group]) || (r.Group == "" && r.File == h.File) {
			rf := ld.pkg.Func(r.Func)
			if rf == nil {
				res.Error = "replacement function not found: " + r.Func
				return
			}
			zi.Replacements[r.Callee] = rf
			if r.Summary {
				res.Replaced = append(res.Replaced, "summary:"+r.Callee)
			} else {
				res.Replaced = append(res.Replaced, r.Callee)
			}
		}
	}
	sort.Strings(res.Replaced)
	solver := h.opt(tier, "solver", "cvc5")
	timeout := h.optInt(tier, "timeout", 20000)
	zi.Z = zi.NewSolver(solver, timeout)
	defer zi.Z.Close()
	zi.Z2 = nil
	if x := h.opt(tier, "xcheck", ""); x != "" {
		zi.Z2 = zi.NewSolver(x, timeout)
		defer zi.Z2.Close()
	}
	e := &zi.Explorer{
		MaxConc:  h.optInt(tier, "maxconc", 64),
		MaxPaths: h.optInt(tier, "paths", 200000),
		MaxInstr: int64(h.optInt(tier, "instr", 20000000)),
		MaxLoop:  h.optInt(tier, "loop", 4096),
		MaxViol:  h.optInt(tier, "maxviol", 40),
		Presets:  job.Preset,
		Params:   h.params(tier),
		Replay:   job.Replay,
		Harness:  h.ID,
		SymClock: h.opt(tier, "symclock", "") != "",
		FPConv:   h.opt(tier, "fpconv", "") != "",
	}
	zi.E = e
	if err := zi.NewInterp(ld.prog, ld.pkg, 0); err != nil {
		res.Error = fmt.Sprint("init failed: ", err)
		return
	}
	zi.Explore(func() interface{} { return zi.RunHarness(ld.pkg, h.Func) })
	res.Paths, res.Infeasible, res.Decisions = e.Paths, e.Infeasible, e.Decisions
	res.Asserts, res.Proved, res.Implied = e.Asserts, e.Proved, e.Implied
	res.Viol, res.Inconcl, res.BoundHit = e.Viol, e.Inconcl, e.BoundHit
	res.Reach, res.ReachModels, res.Samples = e.Reach, e.ReachModels, e.Samples
	res.SolverCalls, res.SolverMs, res.SolverRes, res.SolverErrs, res.Solver = zi.Z.Calls, zi.Z.Time.Milliseconds(), zi.Z.Res, zi.Z.Errors, zi.Z.Name
	res.SolverCrash = zi.Z.Crashes
	res.Funcs = map[string]int{}
	for fn, n := range zi.FuncHits {
		if fn.Pkg == nil || !strings.HasPrefix(fn.Pkg.Pkg.Path(), modulePath) {
			continue
		}
		name := fn.String()
		base := fn.Name()
		if strings.HasPrefix(base, "zx") || strings.HasPrefix(base, "zz") || strings.HasPrefix(base, "vrt") || strings.HasPrefix(base, "init") {
			continue
		}
		if fn.Parent() != nil {
			p := fn.Parent()
			for p.Parent() != nil {
				p = p.Parent()
			}
			if strings.HasPrefix(p.Name(), "zx") || strings.HasPrefix(p.Name(), "zz") {
				continue
			}
		}
		res.Funcs[name] += n
	}
	return
}

// workerMain: zx worker --queue <dir> <outdir>: claims job files from the queue (all of one
// package) until none is left.
func workerMain(args []string) int {
	runtime.GOMAXPROCS(2)
	debug.SetGCPercent(400)
	if len(args) != 3 || args[0] != "--queue" {
		fmt.Fprintln(os.Stderr, "usage: zx worker --queue <dir> <outdir>")
		return 2
	}
	qdir, outdir := args[1], args[2]
	_, pkgs, err := discover()
	if err != nil {
		fmt.Fprintln(os.Stderr, err)
		return 2
	}
	var ld *loaded
	var loadErr error
	var loadMs int64
	var ph *PkgHarness
	for {
		ents, err := os.ReadDir(qdir)
		if err != nil {
			fmt.Fprintln(os.Stderr, err)
			return 2
		}
		claimed := ""
		for _, e := range ents {
			if !strings.HasPrefix(e.Name(), "job") || strings.Contains(e.Name(), ".") {
				continue
			}
			src := filepath.Join(qdir, e.Name())
			dst := src + fmt.Sprintf(".claimed%d", os.Getpid())
			if os.Rename(src, dst) == nil {
				claimed = dst
				break
			}
		}
		if claimed == "" {
			return 0
		}
		data, err := os.ReadFile(claimed)
		if err != nil {
			fmt.Fprintln(os.Stderr, err)
			return 2
		}
		var jobs []Job
		if err := json.Unmarshal(data, &jobs); err != nil || len(jobs) != 1 {
			fmt.Fprintln(os.Stderr, "bad job file", claimed, err)
			return 2
		}
		job := jobs[0]
		if ld == nil && loadErr == nil {
			ph = pkgs[job.H.Pkg]
			t0 := time.Now()
			ld, loadErr = loadPkg(ph)
			loadMs = time.Since(t0).Milliseconds()
		}
		var res JobResult
		if loadErr != nil {
			res = JobResult{Job: job, Error: loadErr.Error()}
		} else {
			res = runJob(ld, ph, job)
		}
		res.LoadMs = loadMs
		out, _ := json.Marshal(res)
		name := filepath.Base(qdir) + "-" + strings.SplitN(filepath.Base(claimed), ".", 2)[0] + ".json"
		if werr := os.WriteFile(filepath.Join(outdir, name), out, 0644); werr != nil {
			fmt.Fprintln(os.Stderr, werr)
			return 2
		}
		if os.Getenv("ZX_PROGRESS") != "" {
			fmt.Fprintf(os.Stderr, "job %s %v: paths=%d asserts=%d proved=%d viol=%d inconcl=%d calls=%d solver=%dms wall=%dms err=%s\n",
				job.H.ID, job.Preset, res.Paths, res.Asserts, res.Proved, len(res.Viol), len(res.Inconcl), res.SolverCalls, res.SolverMs, res.WallMs, res.Error)
		}
	}
}
