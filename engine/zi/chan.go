package zi

import (
	"go/token"
	"go/types"

	"golang.org/x/tools/go/ssa"
)

// FIFO channel model: sends never block; a receive blocks only on an empty, open channel.
type zchan struct {
	buf    []value
	cap    int
	closed bool
	timer  bool // a timer channel: becomes ready only when everything else is blocked
}

type pendingGo struct {
	fn   value
	args []value
}


func chanSend(c *zchan, v value) {
	if c == nil {
		panic(blocked{})
	}
	if c.closed {
		panic("send on closed channel")
	}
	c.buf = append(c.buf, v)
}

func (c *zchan) ready() bool { return c != nil && (len(c.buf) > 0 || c.closed) }

func (c *zchan) take() (value, bool) {
	if len(c.buf) > 0 {
		v := c.buf[0]
		c.buf = c.buf[1:]
		return v, true
	}
	return nil, false // closed
}

// runOnePending runs the oldest recorded goroutine to completion or to its first blocking
// operation (where it is abandoned: there is no resumption). Blocking operations call it
// repeatedly, re-checking readiness in between, so a harness can script an interleaving by
// recording one goroutine per message (DESIGN §3.12 T3: nested run-to-block).
func runOnePending(i *interpreter) bool {
	if len(i.pending) == 0 {
		return false
	}
	g := i.pending[0]
	i.pending = i.pending[1:]
	func() {
		defer func() {
			if r := recover(); r != nil {
				if _, ok := r.(blocked); !ok {
					panic(r)
				}
			}
		}()
		call(i, nil, token.NoPos, g.fn, g.args)
	}()
	return true
}

// runPending runs every recorded goroutine (vrtRunPending, WaitGroup.Wait).
func runPending(i *interpreter) bool {
	ran := false
	for runOnePending(i) {
		ran = true
	}
	return ran
}

func chanRecv(i *interpreter, c *zchan) (value, bool) {
	for {
		if c.ready() {
			return c.take()
		}
		if !runOnePending(i) {
			break
		}
	}
	if c != nil && c.timer {
		return stime{ns: int64(1700000000000000000)}, true
	}
	panic(blocked{})
}

func doSelect(fr *frame, instr *ssa.Select) value {
	pick := func() int {
		for idx, st := range instr.States {
			c := fr.get(st.Chan).(*zchan)
			if st.Dir == types.RecvOnly {
				if c.ready() {
					return idx
				}
			} else if c != nil {
				return idx
			}
		}
		return -1
	}
	chosen := pick()
	if chosen < 0 && instr.Blocking {
		for chosen < 0 && runOnePending(fr.i) {
			chosen = pick()
		}
		if chosen < 0 {
			chosen = pick()
		}
		if chosen < 0 {
			// fire a timer case if there is one
			for idx, st := range instr.States {
				c := fr.get(st.Chan).(*zchan)
				if st.Dir == types.RecvOnly && c != nil && c.timer {
					c.buf = append(c.buf, stime{ns: int64(1700000000000000000)})
					chosen = idx
					break
				}
			}
		}
		if chosen < 0 {
			panic(blocked{})
		}
	}
	recvOk := false
	var recv value
	if chosen >= 0 {
		st := instr.States[chosen]
		c := fr.get(st.Chan).(*zchan)
		if st.Dir == types.RecvOnly {
			recv, recvOk = c.take()
		} else {
			chanSend(c, fr.get(st.Send))
		}
	}
	r := tuple{chosen, recvOk}
	for i, st := range instr.States {
		if st.Dir == types.RecvOnly {
			var v value
			if i == chosen && recvOk {
				v = recv
			} else {
				v = zero(st.Chan.Type().Underlying().(*types.Chan).Elem())
			}
			r = append(r, v)
		}
	}
	return r
}
