package zi

import (
	"fmt"
	"math"
	"math/big"
	"os"
	"sort"
	"strconv"
	"strings"
	"time"
)

// Engine-private panics. They pass through target defers/recovers untouched (Appendix A).
type pathInfeasible struct{}
type pathEnd struct{ why string }    // path stopped early on purpose (after a recorded violation)
type modelAbort struct{ why string } // behaviour outside a model: path is inconclusive
type boundExceeded struct{ why string }
type infraError struct{ why string }
type blocked struct{}
type crashPanic struct{} // vrtCrash: the process dies here; no target defer runs, only vrtCatchCrash sees it

func isEnginePanic(r interface{}) bool {
	switch r.(type) {
	case pathInfeasible, pathEnd, modelAbort, boundExceeded, infraError, blocked, crashPanic:
		return true
	}
	return false
}

type decision struct {
	isVal bool
	b     bool
	v     uint64
}

// Violation is one failed obligation with the model that falsifies it.
type Violation struct {
	Harness string            `json:"harness"`
	Msg     string            `json:"msg"`
	Kind    string            `json:"kind"` // assert | panic | frozen-write | unreachable
	Path    int               `json:"path"`
	Model   map[string]string `json:"model"` // input name -> value (hex bits / bool)
	Order   []string          `json:"order"` // input names in creation order
	Solver  string            `json:"solver"`
}

type Inconclusive struct {
	Harness string `json:"harness"`
	Msg     string `json:"msg"`
	Path    int    `json:"path"`
}

type Explorer struct {
	vec  []decision
	pos  int
	pc   []*Term
	work [][]decision

	// configuration
	MaxConc     int
	MaxPaths    int
	MaxInstr    int64 // per path
	MaxLoop     int   // per loop header per frame activation
	MaxViol     int
	Presets     map[string]int // vrtShape presets (sharding)
	Params      map[string]int // vrtParam values
	Replay      map[string]string // concrete re-execution (R2): input name -> value
	Harness     string
	ContinueAfterViolation bool
	inPath      bool
	SymClock    bool // time.Now() is a fresh non-decreasing symbol
	FPConv      bool

	// per path
	nameSeq   map[string]int
	lastNow   value
	inputs    []*Term
	inputKind map[*Term]string
	instr     int64
	frozen    map[*value]string
	reached   map[string]bool
	observed  []string

	// results
	Paths        int
	Infeasible   int
	Decisions    int
	Asserts      int
	Proved       int
	Implied      int
	Viol         []Violation
	Inconcl      []Inconclusive
	Reach        map[string]int
	ReachModels  map[string]Violation
	Samples      []map[string]string
	BoundHit     []string
	StoreSites   map[string]int
	StartedAt    time.Time
}

var (
	E  *Explorer
	Z  *Solver // primary
	Z2 *Solver // cross-check (optional)
)

func not(t *Term) *Term { return tNot(t) }

func (e *Explorer) push(alt []decision) { e.work = append(e.work, alt) }

func (e *Explorer) addPC(t *Term) {
	if t.isConst {
		if t.cval == 0 {
			panic(pathInfeasible{})
		}
		return
	}
	for _, p := range e.pc {
		if p == t {
			return
		}
	}
	e.pc = append(e.pc, t)
}

// check is the single place where solver verdicts are taken. Verdict-only queries are sliced
// (constraint independence) and cached; queries that need values use the full path condition.
func check(extra []*Term, get []*Term) (string, []string) {
	if len(get) == 0 && !NoSlicing {
		return Z.CheckSliced(E.pc, extra), nil
	}
	return Z.Check(E.pc, extra, get)
}

// NoSlicing disables constraint-independence slicing (ZX_NOSLICE=1; for differential testing).
var NoSlicing = os.Getenv("ZX_NOSLICE") != ""

func (e *Explorer) decide(c *Term) bool {
	if c.isConst {
		return c.cval == 1
	}
	if e.Replay != nil {
		panic(infraError{"symbolic branch during concrete replay: " + c.name})
	}
	if e.pos < len(e.vec) {
		d := e.vec[e.pos]
		e.pos++
		if d.b {
			e.addPC(c)
		} else {
			e.addPC(not(c))
		}
		return d.b
	}
	nc := not(c)
	st, sf := true, true
	known := false
	for _, p := range e.pc {
		if p == c {
			st, sf, known = true, false, true
			break
		}
		if p == nc {
			st, sf, known = false, true, true
			break
		}
	}
	if !known {
		rt, _ := check([]*Term{c}, nil)
		if rt == "unsat" {
			st, sf = false, true // pc is satisfiable by construction
		} else {
			rf, _ := check([]*Term{nc}, nil)
			sf = rf != "unsat"
		}
	} else {
		e.Implied++
	}
	var take bool
	switch {
	case st && sf:
		alt := append(append([]decision{}, e.vec...), decision{b: false})
		e.push(alt)
		take = true
	case st:
		take = true
	case sf:
		take = false
	default:
		panic(pathInfeasible{})
	}
	e.vec = append(e.vec, decision{b: take})
	e.pos++
	e.Decisions++
	if take {
		e.addPC(c)
	} else {
		e.addPC(nc)
	}
	return take
}

// condBool turns a (possibly symbolic) Go bool into a concrete one by forking.
func condBool(v value) bool {
	if s, ok := v.(sym); ok {
		return E.decide(s.t)
	}
	return v.(bool)
}

func parseBV(s string) (uint64, bool) {
	s = strings.TrimSpace(s)
	switch {
	case strings.HasPrefix(s, "#x"):
		v, err := strconv.ParseUint(s[2:], 16, 64)
		return v, err == nil
	case strings.HasPrefix(s, "#b"):
		v, err := strconv.ParseUint(s[2:], 2, 64)
		return v, err == nil
	case strings.HasPrefix(s, "(_ bv"):
		f := strings.Fields(s[5:])
		v, err := strconv.ParseUint(f[0], 10, 64)
		return v, err == nil
	}
	return 0, false
}

// parseReal parses an SMT-LIB real value into the nearest float64.
func parseReal(s string) (float64, bool) {
	s = strings.TrimSpace(s)
	toks := strings.Fields(strings.NewReplacer("(", " ( ", ")", " ) ").Replace(s))
	pos := 0
	var parse func() (*big.Rat, bool)
	parse = func() (*big.Rat, bool) {
		if pos >= len(toks) {
			return nil, false
		}
		t := toks[pos]
		pos++
		if t != "(" {
			r, ok := new(big.Rat).SetString(t)
			return r, ok
		}
		op := toks[pos]
		pos++
		var args []*big.Rat
		for pos < len(toks) && toks[pos] != ")" {
			a, ok := parse()
			if !ok {
				return nil, false
			}
			args = append(args, a)
		}
		pos++
		switch {
		case op == "-" && len(args) == 1:
			return new(big.Rat).Neg(args[0]), true
		case op == "-" && len(args) == 2:
			return new(big.Rat).Sub(args[0], args[1]), true
		case op == "/" && len(args) == 2 && args[1].Sign() != 0:
			return new(big.Rat).Quo(args[0], args[1]), true
		}
		return nil, false
	}
	r, ok := parse()
	if !ok {
		return 0, false
	}
	f, _ := r.Float64()
	return f, true
}

func concretise(x sym) value {
	e := E
	if x.t.isConst {
		return concreteOf(x.k, x.t.cval)
	}
	n, _ := bitsOf(x.k)
	if n == 0 {
		panic(infraError{fmt.Sprintf("concretise: kind %v", x.k)})
	}
	if e.Replay != nil {
		panic(infraError{"symbolic value during concrete replay"})
	}
	if e.pos < len(e.vec) {
		d := e.vec[e.pos]
		e.pos++
		e.addPC(tEq(x.t, bvConst(n, d.v)))
		return concreteOf(x.k, d.v)
	}
	var vals []uint64
	var block []*Term
	for len(vals) < e.MaxConc+1 {
		r, v := check(block, []*Term{x.t})
		if r == "unknown" {
			panic(modelAbort{"solver returned unknown while enumerating values of " + x.t.name})
		}
		if r != "sat" {
			break
		}
		u, ok := parseBV(v[0])
		if !ok {
			panic(infraError{"cannot parse model value " + v[0]})
		}
		vals = append(vals, u)
		block = append(block, not(tEq(x.t, bvConst(n, u))))
	}
	if len(vals) == 0 {
		panic(pathInfeasible{})
	}
	if len(vals) > e.MaxConc {
		panic(boundExceeded{fmt.Sprintf("concretisation bound exceeded (> %d values) for %s", e.MaxConc, x.t.name)})
	}
	sort.Slice(vals, func(i, j int) bool { return vals[i] < vals[j] })
	for i := len(vals) - 1; i >= 1; i-- {
		e.push(append(append([]decision{}, e.vec...), decision{isVal: true, v: vals[i]}))
	}
	e.vec = append(e.vec, decision{isVal: true, v: vals[0]})
	e.pos++
	e.Decisions++
	e.addPC(tEq(x.t, bvConst(n, vals[0])))
	return concreteOf(x.k, vals[0])
}

// input declares a named harness input (one per call, numbered per name on the path).
func (e *Explorer) input(prefix, sort string, width int, kind string) *Term {
	e.nameSeq[prefix]++
	name := fmt.Sprintf("%s.%d", prefix, e.nameSeq[prefix])
	t := declare(name, sort, width)
	if e.inputKind[t] == "" {
		e.inputs = append(e.inputs, t)
		e.inputKind[t] = kind
	}
	return t
}

func (e *Explorer) replayVal(prefix string) (string, bool) {
	if e.Replay == nil {
		return "", false
	}
	e.nameSeq[prefix]++
	name := fmt.Sprintf("%s.%d", prefix, e.nameSeq[prefix])
	v, ok := e.Replay[name]
	if !ok {
		// an input the model did not constrain: zero
		return "0", true
	}
	return v, true
}

// model fetches the values of every input of the current path under pc ∧ extra.
func (e *Explorer) model(extra []*Term) (map[string]string, []string, bool) {
	r, vals := check(extra, e.inputs)
	if r != "sat" {
		return nil, nil, false
	}
	m := map[string]string{}
	var order []string
	for i, t := range e.inputs {
		order = append(order, t.name)
		v := vals[i]
		switch e.inputKind[t] {
		case "bool":
			m[t.name] = v
		case "real":
			f, ok := parseReal(v)
			if !ok {
				m[t.name] = "real:" + v
			} else {
				m[t.name] = fmt.Sprintf("f:%016x", math.Float64bits(f))
			}
		default:
			u, ok := parseBV(v)
			if !ok {
				m[t.name] = "?" + v
			} else {
				m[t.name] = fmt.Sprintf("%x", u)
			}
		}
	}
	return m, order, true
}

func (e *Explorer) violation(kind, msg string, extra []*Term) {
	v := Violation{Harness: e.Harness, Msg: msg, Kind: kind, Path: e.Paths + 1, Solver: Z.Name}
	if e.Replay == nil {
		m, order, ok := e.model(extra)
		if !ok {
			e.Inconcl = append(e.Inconcl, Inconclusive{e.Harness, "no model for violation: " + msg, e.Paths + 1})
			return
		}
		v.Model, v.Order = m, order
	} else {
		v.Model = e.Replay
	}
	e.Viol = append(e.Viol, v)
	if os.Getenv("ZX_PROGRESS") != "" {
		fmt.Fprintf(os.Stderr, "  VIOL %s: %s\n", kind, msg)
	}
	if len(e.Viol) >= e.MaxViol {
		e.work = nil
		if e.inPath {
			panic(pathEnd{"violation cap reached"})
		}
	}
}

// assert is vrtAssert: obligation pc ⇒ c.
func (e *Explorer) assert(c value, msg string) {
	e.Asserts++
	s, ok := c.(sym)
	if !ok {
		if !c.(bool) {
			e.violation("assert", msg, nil)
			panic(pathEnd{"assertion failed concretely"})
		}
		e.Proved++
		return
	}
	if s.t.isConst {
		e.assert(s.t.cval == 1, msg)
		return
	}
	for _, p := range e.pc {
		if p == s.t {
			e.Proved++
			e.Implied++
			return
		}
	}
	r, _ := check([]*Term{not(s.t)}, nil)
	switch r {
	case "unsat":
		if Z2 != nil && os.Getenv("ZX_XCHECK_ALL") != "" {
			r2, _ := Z2.Check(e.pc, []*Term{not(s.t)}, nil)
			if r2 == "sat" {
				e.Inconcl = append(e.Inconcl, Inconclusive{e.Harness, "solver disagreement (" + Z.Name + " unsat, " + Z2.Name + " sat): " + msg, e.Paths + 1})
				return
			}
		}
		e.Proved++
		e.addPC(s.t)
	case "sat":
		e.violation("assert", msg, []*Term{not(s.t)})
		// continue on the side where the assertion holds, if there is one
		r2, _ := check([]*Term{s.t}, nil)
		if r2 == "unsat" {
			panic(pathEnd{"assertion fails on the whole path"})
		}
		e.addPC(s.t)
	default:
		e.Inconcl = append(e.Inconcl, Inconclusive{e.Harness, "unknown: " + msg, e.Paths + 1})
		e.addPC(s.t)
	}
}

func (e *Explorer) assume(c value) {
	s, ok := c.(sym)
	if !ok {
		if !c.(bool) {
			panic(pathInfeasible{})
		}
		return
	}
	if s.t.isConst {
		if s.t.cval == 0 {
			panic(pathInfeasible{})
		}
		return
	}
	if e.Replay != nil {
		return
	}
	if e.pos < len(e.vec) || true {
		// assumptions are re-checked only beyond the replayed prefix
	}
	r, _ := check([]*Term{s.t}, nil)
	if r == "unsat" {
		panic(pathInfeasible{})
	}
	e.addPC(s.t)
}

// Explore runs fn over all paths of the decision tree.
func Explore(run func() interface{}) {
	e := E
	e.work = [][]decision{nil}
	e.Reach = map[string]int{}
	e.ReachModels = map[string]Violation{}
	e.StartedAt = time.Now()
	for len(e.work) > 0 {
		if e.Paths >= e.MaxPaths {
			e.BoundHit = append(e.BoundHit, fmt.Sprintf("path budget %d exhausted with %d prefixes unexplored", e.MaxPaths, len(e.work)))
			break
		}
		v := e.work[len(e.work)-1]
		e.work = e.work[:len(e.work)-1]
		e.vec, e.pos, e.pc = v, 0, nil
		e.nameSeq = map[string]int{}
		e.lastNow = nil
		e.inputs = nil
		e.inputKind = map[*Term]string{}
		e.instr = 0
		e.frozen = map[*value]string{}
		e.reached = map[string]bool{}
		tRun := time.Now()
		e.inPath = true
		err := run()
		e.inPath = false
		switch x := err.(type) {
		case nil:
		case pathInfeasible:
			e.Infeasible++
			if os.Getenv("ZX_PROGRESS") != "" {
				fmt.Fprintf(os.Stderr, "infeasible prefix: dec=%d work=%d wall=%v\n", len(e.vec), len(e.work), time.Since(tRun).Round(time.Millisecond))
			}
			continue
		case pathEnd:
		case blocked:
			e.Inconcl = append(e.Inconcl, Inconclusive{e.Harness, "deadlock: every goroutine blocked", e.Paths + 1})
		case modelAbort:
			e.Inconcl = append(e.Inconcl, Inconclusive{e.Harness, "outside model: " + x.why, e.Paths + 1})
		case boundExceeded:
			e.BoundHit = append(e.BoundHit, x.why)
		case infraError:
			panic(x)
		case targetPanic:
			// a Go panic escaped the harness
			e.violation("panic", "uncaught Go panic: "+panicString(x), nil)
		default:
			panic(fmt.Sprintf("engine fault on path %d: %v", e.Paths+1, err))
		}
		e.Paths++
		for id := range e.reached {
			e.Reach[id]++
		}
		if len(e.Samples) < 3 && err == nil && e.Replay == nil && len(e.inputs) > 0 {
			if m, _, ok := e.model(nil); ok {
				e.Samples = append(e.Samples, m)
			}
		}
		if os.Getenv("ZX_PROGRESS") != "" {
			fmt.Fprintf(os.Stderr, "path %d: dec=%d work=%d calls=%d solver=%v wall=%v err=%v\n", e.Paths, len(e.vec), len(e.work), Z.Calls, Z.Time.Round(time.Millisecond), time.Since(tRun).Round(time.Millisecond), err)
		}
	}
}

func panicString(p targetPanic) string {
	s := toString(p.v)
	func() {
		defer func() { recover() }()
		if m, ok := callStringer(&frame{i: theInterp}, p.v); ok {
			s = m
		}
	}()
	if len(s) > 300 {
		s = s[:300]
	}
	return s
}
