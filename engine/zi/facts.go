package zi

// Range and grid facts about declared inputs.
//
// A harness input may be declared with a signed range (vrtRange*, vrtShape, vrtGridTime). The
// assumption lo <= x <= hi is asserted in the path condition at creation on every path, so the
// fact is valid wherever the input occurs. Facts let the term builder decide comparisons and
// remainders of *linear* terms by interval arithmetic over the integers — sound because the
// interval of the mathematical sum is checked to lie inside the signed range of the width, i.e.
// the machine value does not wrap.
//
// Grid fact (DESIGN §5 "on Go's rounding grid"): for G declared by vrtGridTime(name, g) the path
// condition contains (G + off(g)) srem g = 0 with off(g) = (62135596800·10^9) mod g, which is
// "time.Time.Round(g) leaves G unchanged". gridRem uses it to evaluate (G + R) srem d for d | g
// without a division on G.

import (
	"fmt"
	"math/big"
)

type fact struct {
	hasRange bool
	lo, hi   int64
}

var facts = map[*Term]*fact{}

var offYear1 = new(big.Int).Mul(big.NewInt(62135596800), big.NewInt(1000000000))

func gridOff(d int64) int64 {
	return new(big.Int).Mod(offYear1, big.NewInt(d)).Int64()
}

var (
	bigMin63 = new(big.Int).Neg(new(big.Int).Lsh(big.NewInt(1), 63))
	bigMax63 = new(big.Int).Sub(new(big.Int).Lsh(big.NewInt(1), 63), big.NewInt(1))
)

// linInterval returns the interval of the mathematical value of l (signed reading) when every
// atom has a range fact and the result provably fits the signed width.
func linInterval(l *linForm) (lo, hi *big.Int, ok bool) {
	if l.n != 64 {
		return nil, nil, false
	}
	lo = big.NewInt(int64(l.c))
	hi = big.NewInt(int64(l.c))
	for _, a := range l.atoms {
		f := atomFact(a.t)
		if f == nil {
			return nil, nil, false
		}
		k := big.NewInt(int64(a.k))
		x := new(big.Int).Mul(k, big.NewInt(f.lo))
		y := new(big.Int).Mul(k, big.NewInt(f.hi))
		if x.Cmp(y) > 0 {
			x, y = y, x
		}
		lo.Add(lo, x)
		hi.Add(hi, y)
	}
	if lo.Cmp(bigMin63) < 0 || hi.Cmp(bigMax63) > 0 {
		return nil, nil, false
	}
	return lo, hi, true
}

var noFact = &fact{}

// atomFact returns the range fact of an atom: declared, or derived for ite terms (hull of the
// branches) and zero-extensions of narrower values.
func atomFact(t *Term) *fact {
	if f := facts[t]; f != nil {
		if f == noFact || !f.hasRange {
			return nil
		}
		return f
	}
	var out *fact
	switch t.op {
	case "ite":
		alo, ahi, ok1 := linInterval(linOf(t.args[1]))
		blo, bhi, ok2 := linInterval(linOf(t.args[2]))
		if ok1 && ok2 && alo.IsInt64() && ahi.IsInt64() && blo.IsInt64() && bhi.IsInt64() {
			lo, hi := alo.Int64(), ahi.Int64()
			if blo.Int64() < lo {
				lo = blo.Int64()
			}
			if bhi.Int64() > hi {
				hi = bhi.Int64()
			}
			out = &fact{hasRange: true, lo: lo, hi: hi}
		}
	case "zext":
		if t.width == 64 && t.args[0].width < 63 {
			out = &fact{hasRange: true, lo: 0, hi: int64(mask(t.args[0].width))}
		}
	}
	if out == nil {
		facts[t] = noFact
		return nil
	}
	facts[t] = out
	return out
}

// rangeCmp decides a < b from range facts when possible (nil = undecided).
func rangeCmp(op string, a, b *Term) *Term {
	if a.width != 64 {
		return nil
	}
	alo, ahi, ok := linInterval(linOf(a))
	if !ok {
		return nil
	}
	blo, bhi, ok := linInterval(linOf(b))
	if !ok {
		return nil
	}
	if op == "bvult" && (alo.Sign() < 0 || blo.Sign() < 0) {
		return nil
	}
	// a and b are exact (non-wrapping) integers. The combined form d = a-b has coefficients
	// reduced mod 2^64; read signed, its value is congruent to a-b mod 2^64. If both the hull of
	// a-b and the interval of d fit in 64 signed bits, the two are equal.
	hullLo := new(big.Int).Sub(alo, bhi)
	hullHi := new(big.Int).Sub(ahi, blo)
	if hullLo.Cmp(bigMin63) < 0 || hullHi.Cmp(bigMax63) > 0 {
		return nil
	}
	dlo, dhi, ok := linInterval(linCombine(linOf(a), 1, linOf(b), ^uint64(0)))
	if !ok {
		dlo, dhi = hullLo, hullHi
	}
	if dhi.Sign() < 0 {
		return tTrue
	}
	if dlo.Sign() >= 0 {
		return tFalse
	}
	// Undecided, but a, b and a-b are exact integers: a < b  <=>  (a-b) < 0. The difference drops
	// the atoms the two sides share (typically res·m of a grid time), which spares the solver a
	// 64-bit multiplication by 10^9 on both sides of the comparison.
	dl := linCombine(linOf(a), 1, linOf(b), ^uint64(0))
	if len(dl.atoms) < len(linOf(a).atoms)+len(linOf(b).atoms) {
		if _, _, ok := linInterval(dl); ok {
			dt := fromLin(dl)
			zero := bvConst(64, 0)
			return mkOp("Bool", 0, "bvslt", 0, fmt.Sprintf("(bvslt %s %s)", dt, zero), dt, zero)
		}
	}
	return nil
}

// gridRem evaluates (Σ k_i·a_i + R) sdiv/srem d where d divides every k_i (as integers): with
// M = Σ (k_i/d)·a_i the quotient is M + floor(R/d) and the remainder R − d·floor(R/d), provided
// the whole dividend is a non-negative, non-wrapping integer (so that sdiv/srem are the
// mathematical floor-div/mod). floor(R/d) is an ite chain of constants over the interval of R.
// This is how a grid time d·m − off(d) plus an offset is split and rounded without a division on
// m, and it keeps (x/d)·d + x%d recombining to x in the linear normal form.
func gridRem(op string, a, b *Term) *Term {
	if (op != "bvsrem" && op != "bvsdiv") || a.width != 64 || !b.isConst {
		return nil
	}
	d := int64(b.cval)
	if d <= 1 {
		return nil
	}
	l := linOf(a)
	rest := &linForm{n: 64, c: l.c}
	mpart := &linForm{n: 64}
	dropped := false
	for _, at := range l.atoms {
		k := int64(at.k)
		f := atomFact(at.t)
		if f != nil && k%d == 0 {
			dropped = true
			mpart.atoms = append(mpart.atoms, linAtom{at.t, uint64(k / d)})
			continue
		}
		rest.atoms = append(rest.atoms, at)
	}
	if !dropped {
		return nil
	}
	alo, _, ok := linInterval(l)
	if !ok || alo.Sign() < 0 {
		return nil
	}
	rlo, rhi, ok := linInterval(rest)
	if !ok {
		return nil
	}
	bd := big.NewInt(d)
	qlo := new(big.Int).Div(rlo, bd) // Euclidean (floor for positive d)
	qhi := new(big.Int).Div(rhi, bd)
	span := new(big.Int).Sub(qhi, qlo)
	if !span.IsInt64() || span.Int64() > 3 || !qlo.IsInt64() {
		return nil
	}
	rt := fromLin(rest)
	// q = the floor quotient of rest: q·d <= rest < (q+1)·d
	var q *Term
	for c := qhi.Int64(); c >= qlo.Int64(); c-- {
		if q == nil {
			q = bvConst(64, uint64(c))
		} else {
			q = tIte(bvCmp("bvslt", rt, bvConst(64, uint64((c+1)*d))), bvConst(64, uint64(c)), q)
		}
	}
	if op == "bvsdiv" {
		return bvAdd(fromLin(mpart), q)
	}
	return bvSub(rt, bvMul(q, b))
}

// rangeDivRem evaluates a sdiv/srem d (d a positive constant) without a division when the
// dividend is a linear term whose integer interval spans at most four quotients: the quotient is
// an ite chain of constants over comparisons of the dividend with multiples of d.
func rangeDivRem(op string, a, b *Term) *Term {
	if (op != "bvsdiv" && op != "bvsrem") || a.width != 64 || !b.isConst {
		return nil
	}
	d := int64(b.cval)
	if d <= 0 {
		return nil
	}
	lo, hi, ok := linInterval(linOf(a))
	if !ok || !lo.IsInt64() || !hi.IsInt64() {
		return nil
	}
	l, h := lo.Int64(), hi.Int64()
	qlo, qhi := l/d, h/d // Go's / truncates toward zero, like bvsdiv; monotone for d > 0
	if qhi-qlo > 3 {
		return nil
	}
	// upper bound of the set {x : trunc(x/d) = q}
	ub := func(q int64) int64 {
		if q >= 0 {
			return (q+1)*d - 1
		}
		return q * d
	}
	var quo *Term = bvConst(64, uint64(qhi))
	for q := qhi - 1; q >= qlo; q-- {
		// x <= ub(q)  ->  q (or lower, handled by the outer ites)
		c := tNot(bvCmp("bvslt", bvConst(64, uint64(ub(q))), a))
		quo = tIte(c, bvConst(64, uint64(q)), quo)
	}
	if op == "bvsdiv" {
		return quo
	}
	return bvSub(a, bvMul(quo, b))
}
