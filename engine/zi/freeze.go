package zi

// Freeze monitors (DESIGN §3.12 T1): vrtFreeze(x) marks every memory cell reachable from x; a
// store, copy or in-place append that changes the content of a marked cell on a feasible path is
// a violation ("the operand was modified").

import (
	"fmt"
	"go/types"

	"golang.org/x/tools/go/ssa"
)

var curStore *ssa.Store

func freezeValue(v value, label string, seenSlices map[*value]bool) {
	switch x := v.(type) {
	case []value:
		if len(x) == 0 || seenSlices[&x[0]] {
			return
		}
		seenSlices[&x[0]] = true
		for i := range x {
			E.frozen[&x[i]] = fmt.Sprintf("%s[%d]", label, i)
			freezeValue(x[i], fmt.Sprintf("%s[%d]", label, i), seenSlices)
		}
	case structure:
		if len(x) == 0 || seenSlices[&x[0]] {
			return
		}
		seenSlices[&x[0]] = true
		for i := range x {
			E.frozen[&x[i]] = fmt.Sprintf("%s.f%d", label, i)
			freezeValue(x[i], fmt.Sprintf("%s.f%d", label, i), seenSlices)
		}
	case array:
		if len(x) == 0 || seenSlices[&x[0]] {
			return
		}
		seenSlices[&x[0]] = true
		for i := range x {
			E.frozen[&x[i]] = fmt.Sprintf("%s[%d]", label, i)
			freezeValue(x[i], fmt.Sprintf("%s[%d]", label, i), seenSlices)
		}
	case *value:
		if x == nil {
			return
		}
		if _, ok := E.frozen[x]; ok {
			return
		}
		E.frozen[x] = "*" + label
		freezeValue(*x, "*"+label, seenSlices)
	case iface:
		freezeValue(x.v, label, seenSlices)
	case *hashmap:
		if x != nil {
			for _, e := range x.ents {
				if !e.deleted {
					freezeValue(e.value, label+"{}", seenSlices)
				}
			}
		}
	}
}

func unfreezeAll() { E.frozen = map[*value]string{} }

// checkFrozenCell is called before *addr = v.
func checkFrozenCell(addr *value, v value) {
	label, ok := E.frozen[addr]
	if !ok {
		return
	}
	old := *addr
	where := ""
	if curStore != nil {
		where = " at " + theInterp.prog.Fset.Position(curStore.Pos()).String() + " in " + curStore.Parent().String()
	}
	var same value
	func() {
		defer func() {
			if r := recover(); r != nil {
				if isEnginePanic(r) {
					panic(r)
				}
				same = identical(old, v)
			}
		}()
		same = symEquals(nil, old, v)
	}()
	switch s := same.(type) {
	case bool:
		if !s {
			E.violation("frozen-write", "frozen cell "+label+" overwritten"+where, nil)
		}
	case sym:
		r, _ := check([]*Term{tNot(s.t)}, nil)
		if r == "sat" {
			E.violation("frozen-write", "frozen cell "+label+" overwritten"+where, []*Term{tNot(s.t)})
			r2, _ := check([]*Term{s.t}, nil)
			if r2 == "unsat" {
				panic(pathEnd{"frozen write on the whole path"})
			}
			E.addPC(s.t)
		} else if r == "unknown" {
			E.Inconcl = append(E.Inconcl, Inconclusive{E.Harness, "unknown: frozen cell " + label + where, E.Paths + 1})
		}
	}
}

// identical is pointer/shape identity for uncomparable values (slices, maps, funcs).
func identical(a, b value) bool {
	switch x := a.(type) {
	case []value:
		y, ok := b.([]value)
		if !ok || len(x) != len(y) {
			return false
		}
		if len(x) == 0 {
			return true
		}
		return &x[0] == &y[0]
	case *hashmap:
		y, ok := b.(*hashmap)
		return ok && x == y
	case *ssa.Function:
		y, ok := b.(*ssa.Function)
		return ok && x == y
	case *closure:
		y, ok := b.(*closure)
		return ok && x == y
	case nil:
		return b == nil
	}
	return false
}

var _ = types.Typ
