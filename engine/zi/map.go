package zi

// Insertion-ordered map used for every Go map (DESIGN §3.7: map iteration must be deterministic,
// otherwise replaying a decision vector can diverge). Keys with symbolic parts are compared with
// forking equality.

import (
	"go/types"
)

type hashable interface {
	hash(t types.Type) int
	eq(t types.Type, x interface{}) bool
}

type entry struct {
	key     value
	value   value
	deleted bool
}

type hashmap struct {
	keyType types.Type
	ents    []*entry
	idx     map[int][]*entry // by hash, concrete keys only
	symKeys bool             // some key contains a symbolic part: always scan
	length  int
}

func usesBuiltinMap(t types.Type) bool { return false }

func makeMap(kt types.Type, reserve int64) value {
	return &hashmap{keyType: kt, idx: map[int][]*entry{}}
}

func hasSym(v value) bool {
	switch x := v.(type) {
	case sym:
		return true
	case symstr:
		return true
	case structure:
		for _, e := range x {
			if hasSym(e) {
				return true
			}
		}
	case array:
		for _, e := range x {
			if hasSym(e) {
				return true
			}
		}
	case iface:
		return hasSym(x.v)
	}
	return false
}

func (m *hashmap) find(k value) *entry {
	if m == nil {
		return nil
	}
	if m.symKeys || hasSym(k) {
		for _, e := range m.ents {
			if !e.deleted && condBool(symEquals(m.keyType, k, e.key)) {
				return e
			}
		}
		return nil
	}
	h := hash(m.keyType, m.keyType, k)
	for _, e := range m.idx[h] {
		if !e.deleted && equals(m.keyType, k, e.key) {
			return e
		}
	}
	return nil
}

func (m *hashmap) delete(k value) {
	if e := m.find(k); e != nil {
		e.deleted = true
		m.length--
	}
}

// lookup returns the value for k, or nil.
func (m *hashmap) lookup(k value) value {
	if e := m.find(k); e != nil {
		return e.value
	}
	return nil
}

func (m *hashmap) insert(k value, v value) {
	if e := m.find(k); e != nil {
		e.value = v
		return
	}
	e := &entry{key: k, value: v}
	m.ents = append(m.ents, e)
	if hasSym(k) {
		m.symKeys = true
	} else {
		h := hash(m.keyType, m.keyType, k)
		m.idx[h] = append(m.idx[h], e)
	}
	m.length++
}

func (m *hashmap) len() int {
	if m != nil {
		return m.length
	}
	return 0
}

type hashmapIter struct {
	m *hashmap
	i int
}

func (it *hashmapIter) next() tuple {
	if it.m != nil {
		for it.i < len(it.m.ents) {
			e := it.m.ents[it.i]
			it.i++
			if !e.deleted {
				return []value{true, e.key, e.value}
			}
		}
	}
	return []value{false, nil, nil}
}
