package zi

// Engine models (DESIGN §3.5, §3.6): time, math, fmt, golog, sync, bytealg, context.

import (
	"fmt"
	"go/token"
	"go/types"
	"math"
	"strings"
	"time"

	"golang.org/x/tools/go/ssa"
)

var InitAllowed = func(path string) bool { return false }

// SkipInit lists numbered init functions that must not run (e.g. zenodb.init#1 reads /proc).
var SkipInit = map[string]bool{}

// ---------------------------------------------------------------- time.Time

// stime is the engine value for time.Time: zero (the zero Time), far (a non-zero time within a
// few centuries of year 1, produced by arithmetic on the zero Time) or Unix nanoseconds.
type stime struct {
	zero bool
	far  bool
	ns   value // int64 or sym(Int64)
}

func isTimeTime(t *types.Named) bool {
	o := t.Obj()
	return o.Pkg() != nil && o.Pkg().Path() == "time" && o.Name() == "Time"
}

var tI64 = types.Typ[types.Int64]

const (
	timeLo = int64(1) << 40
	timeHi = int64(1) << 62
)

func mkTime(ns value) stime {
	if c, ok := ns.(int64); ok {
		if c < -timeHi || c >= timeHi {
			panic(modelAbort{"time outside the modelled range"})
		}
	}
	return stime{ns: ns}
}

func stUnix(fr *frame, args []value) value {
	s, n := args[0], args[1]
	return mkTime(binop(token.ADD, tI64, binop(token.MUL, tI64, s, int64(1000000000)), n))
}

func st(v value) stime { return v.(stime) }

func timeRound(a stime, d value, mode string) stime {
	if s, ok := d.(sym); ok {
		d = concretise(s)
	}
	dd := d.(int64)
	if a.zero || dd <= 0 {
		return a
	}
	if a.far {
		panic(modelAbort{"Round/Truncate on a time near year 1"})
	}
	off := gridOff(dd)
	r := binop(token.REM, tI64, binop(token.ADD, tI64, a.ns, off), dd) // ns+off >= 0 inside the modelled range
	if mode == "truncate" {
		return mkTime(binop(token.SUB, tI64, a.ns, r))
	}
	lt := binop(token.LSS, tI64, binop(token.ADD, tI64, r, r), dd)
	if condBool(lt) {
		return mkTime(binop(token.SUB, tI64, a.ns, r))
	}
	return mkTime(binop(token.SUB, tI64, binop(token.ADD, tI64, a.ns, dd), r))
}

func symNow() value {
	if !E.SymClock {
		return stime{ns: int64(1600000000000000000)}
	}
	if E.Replay != nil {
		v, _ := E.replayVal("now")
		return mkTime(int64(parseHex(v)))
	}
	t := sym{E.input("now", bvSort(64), 64, "bv"), types.Int64}
	facts[t.t] = &fact{hasRange: true, lo: timeLo, hi: timeHi - 1}
	assertRange(t.t, timeLo, timeHi-1)
	if E.lastNow != nil {
		ln := E.lastNow.(sym).t
		E.addPC(mkOp("Bool", 0, "rawsle", 0, fmt.Sprintf("(bvsle %s %s)", ln, t.t), ln, t.t))
	}
	E.lastNow = t
	return stime{ns: t}
}

func init() {
	for k, v := range map[string]externalFn{
		"time.Unix": stUnix,
		"time.Parse": func(fr *frame, args []value) value {
			layout, ok1 := args[0].(string)
			val, ok2 := args[1].(string)
			if !ok1 || !ok2 {
				panic(modelAbort{"time.Parse on a symbolic string"})
			}
			t, err := time.Parse(layout, val)
			if err != nil {
				return tuple{stime{zero: true}, newError(fr.i, err.Error())}
			}
			if t.IsZero() {
				return tuple{stime{zero: true}, iface{}}
			}
			if t.Year() < 1700 || t.Year() > 2200 {
				return tuple{stime{far: true}, iface{}}
			}
			return tuple{mkTime(t.UnixNano()), iface{}}
		},
		"time.Date": func(fr *frame, args []value) value {
			for _, a := range args[:7] {
				if isSym(a) {
					panic(modelAbort{"time.Date with symbolic components"})
				}
			}
			t := time.Date(int(asInt64(args[0])), time.Month(asInt64(args[1])), int(asInt64(args[2])), int(asInt64(args[3])), int(asInt64(args[4])), int(asInt64(args[5])), int(asInt64(args[6])), time.UTC)
			if t.IsZero() {
				return stime{zero: true}
			}
			return mkTime(t.UnixNano())
		},
		"time.Now":  func(fr *frame, args []value) value { return symNow() },
		"time.Since": func(fr *frame, args []value) value {
			return timeSub(st(symNow()), st(args[0]))
		},
		"time.Until": func(fr *frame, args []value) value {
			return timeSub(st(args[0]), st(symNow()))
		},
		"(time.Time).IsZero": func(fr *frame, args []value) value { return st(args[0]).zero },
		"(time.Time).UnixNano": func(fr *frame, args []value) value {
			a := st(args[0])
			if a.zero {
				return time.Time{}.UnixNano() // wraps; Go's result is deterministic
			}
			if a.far {
				panic(modelAbort{"UnixNano of a time near year 1"})
			}
			return a.ns
		},
		"(time.Time).Unix": func(fr *frame, args []value) value {
			a := st(args[0])
			if a.zero || a.far {
				return int64(-62135596800)
			}
			// floor division (ns >= 0 inside the modelled range)
			return binop(token.QUO, tI64, a.ns, int64(1000000000))
		},
		"(time.Time).Nanosecond": func(fr *frame, args []value) value {
			a := st(args[0])
			if a.zero || a.far {
				return 0
			}
			return conv(types.Typ[types.Int], tI64, binop(token.REM, tI64, a.ns, int64(1000000000)))
		},
		"time.NewTimer": func(fr *frame, args []value) value {
			tt := namedType(fr.i, "time", "Timer")
			var cell value = zero(tt)
			cell.(structure)[0] = &zchan{timer: true}
			return &cell
		},
		"time.NewTicker": func(fr *frame, args []value) value {
			tt := namedType(fr.i, "time", "Ticker")
			var cell value = zero(tt)
			cell.(structure)[0] = &zchan{timer: true}
			return &cell
		},
		"(*time.Timer).Stop":   func(fr *frame, args []value) value { return true },
		"(*time.Timer).Reset":  func(fr *frame, args []value) value { return true },
		"(*time.Ticker).Stop":  func(fr *frame, args []value) value { return nil },
		"time.After":           func(fr *frame, args []value) value { return &zchan{timer: true} },
		"time.Sleep":           func(fr *frame, args []value) value { return nil },
		"(time.Time).In":       func(fr *frame, args []value) value { return args[0] },
		"(time.Time).UTC":      func(fr *frame, args []value) value { return args[0] },
		"(time.Time).Local":    func(fr *frame, args []value) value { return args[0] },
		"(time.Time).Format":   func(fr *frame, args []value) value { return timeString(st(args[0])) },
		"(time.Time).String":   func(fr *frame, args []value) value { return timeString(st(args[0])) },
		"(time.Time).GoString": func(fr *frame, args []value) value { return timeString(st(args[0])) },
		"(time.Time).Before": func(fr *frame, args []value) value {
			a, b := st(args[0]), st(args[1])
			if a.zero || b.zero || a.far || b.far {
				return rankTime(a) < rankTime(b)
			}
			return binop(token.LSS, tI64, a.ns, b.ns)
		},
		"(time.Time).After": func(fr *frame, args []value) value {
			a, b := st(args[0]), st(args[1])
			if a.zero || b.zero || a.far || b.far {
				return rankTime(a) > rankTime(b)
			}
			return binop(token.GTR, tI64, a.ns, b.ns)
		},
		"(time.Time).Equal": func(fr *frame, args []value) value {
			a, b := st(args[0]), st(args[1])
			if a.zero || b.zero {
				return a.zero == b.zero
			}
			if a.far || b.far {
				if a.far && b.far {
					panic(modelAbort{"Equal on two times near year 1"})
				}
				return false
			}
			return binop(token.EQL, tI64, a.ns, b.ns)
		},
		"(time.Time).Compare": func(fr *frame, args []value) value {
			a, b := st(args[0]), st(args[1])
			if a.zero || b.zero || a.far || b.far {
				ra, rb := rankTime(a), rankTime(b)
				switch {
				case ra < rb:
					return -1
				case ra > rb:
					return 1
				}
				return 0
			}
			if condBool(binop(token.LSS, tI64, a.ns, b.ns)) {
				return -1
			}
			if condBool(binop(token.GTR, tI64, a.ns, b.ns)) {
				return 1
			}
			return 0
		},
		"(time.Time).Add": func(fr *frame, args []value) value {
			a := st(args[0])
			d := args[1]
			if a.zero || a.far {
				if c, ok := d.(int64); ok && c == 0 {
					return a
				}
				if s, ok := d.(sym); ok {
					if condBool(binop(token.EQL, tI64, s, int64(0))) {
						return a
					}
				}
				return stime{far: true}
			}
			return mkTime(binop(token.ADD, tI64, a.ns, d))
		},
		"(time.Time).Sub": func(fr *frame, args []value) value {
			return timeSub(st(args[0]), st(args[1]))
		},
		"(time.Time).Round": func(fr *frame, args []value) value {
			return timeRound(st(args[0]), args[1], "round")
		},
		"(time.Time).Truncate": func(fr *frame, args []value) value {
			return timeRound(st(args[0]), args[1], "truncate")
		},
		"(time.Duration).String": func(fr *frame, args []value) value {
			d := args[0]
			if s, ok := d.(sym); ok {
				return "<sym:" + s.t.name + ">"
			}
			return time.Duration(d.(int64)).String()
		},

		// ---- math
		"math.Floor": func(fr *frame, args []value) value {
			if s, ok := args[0].(sym); ok {
				if T.real {
					panic(modelAbort{"math.Floor on a symbolic value in real mode"})
				}
				return symOf(mkOp(T.sF64, 0, "floor", 0, fmt.Sprintf("(fp.roundToIntegral RTN %s)", s.t), s.t), types.Float64)
			}
			return math.Floor(args[0].(float64))
		},
		"math.Ceil": func(fr *frame, args []value) value {
			if s, ok := args[0].(sym); ok {
				if T.real {
					panic(modelAbort{"math.Ceil on a symbolic value in real mode"})
				}
				return symOf(mkOp(T.sF64, 0, "ceil", 0, fmt.Sprintf("(fp.roundToIntegral RTP %s)", s.t), s.t), types.Float64)
			}
			return math.Ceil(args[0].(float64))
		},
		"math.Float64frombits": func(fr *frame, args []value) value {
			if s, ok := args[0].(sym); ok {
				return symOf(fpFromBits(s.t), types.Float64)
			}
			return math.Float64frombits(args[0].(uint64))
		},
		"math.Float64bits": func(fr *frame, args []value) value {
			if s, ok := args[0].(sym); ok {
				b, side := fpToBits(s.t)
				if side != nil {
					E.addPC(side)
				}
				return symOf(b, types.Uint64)
			}
			return math.Float64bits(args[0].(float64))
		},
		"math.IsNaN": func(fr *frame, args []value) value {
			if s, ok := args[0].(sym); ok {
				return symOf(fpIsNaN(s.t), types.Bool)
			}
			return math.IsNaN(args[0].(float64))
		},
		"math.IsInf": func(fr *frame, args []value) value {
			if s, ok := args[0].(sym); ok {
				sign := args[1].(int)
				inf := fpIsInf(s.t)
				switch {
				case sign > 0:
					return symOf(tAnd(inf, fpCmp("gt", s.t, fpConst(0))), types.Bool)
				case sign < 0:
					return symOf(tAnd(inf, fpCmp("lt", s.t, fpConst(0))), types.Bool)
				}
				return symOf(inf, types.Bool)
			}
			return math.IsInf(args[0].(float64), args[1].(int))
		},
		"math.Abs": func(fr *frame, args []value) value {
			if s, ok := args[0].(sym); ok {
				if T.real {
					return symOf(tIte(fpCmp("lt", s.t, fpConst(0)), fpNeg(s.t), s.t), types.Float64)
				}
				return symOf(mkOp(T.sF64, 0, "fabs", 0, fmt.Sprintf("(fp.abs %s)", s.t), s.t), types.Float64)
			}
			return math.Abs(args[0].(float64))
		},
		"math.Pow10": func(fr *frame, args []value) value { return math.Pow10(int(asInt64(args[0]))) },
		"math.Pow": func(fr *frame, args []value) value {
			if isSym(args[0]) || isSym(args[1]) {
				panic(modelAbort{"math.Pow on symbolic values"})
			}
			return math.Pow(args[0].(float64), args[1].(float64))
		},
		"math.Log":   ulog("ln", math.Log),
		"math.Log2":  ulog("log2", math.Log2),
		"math.Log10": ulog("log10", math.Log10),
		"math.Sqrt": func(fr *frame, args []value) value {
			if s, ok := args[0].(sym); ok {
				if T.real {
					panic(modelAbort{"math.Sqrt in real mode"})
				}
				return symOf(mkOp(T.sF64, 0, "fsqrt", 0, fmt.Sprintf("(fp.sqrt RNE %s)", s.t), s.t), types.Float64)
			}
			return math.Sqrt(args[0].(float64))
		},
		"math.Inf": func(fr *frame, args []value) value { return math.Inf(int(asInt64(args[0]))) },
		"math.NaN": func(fr *frame, args []value) value { return math.NaN() },
	} {
		externals[k] = v
	}
}

// ulog: logarithms are uninterpreted functions of their argument (only determinism is used).
func ulog(tag string, f func(float64) float64) externalFn {
	return func(fr *frame, args []value) value {
		if s, ok := args[0].(sym); ok {
			return symOf(mkOp(T.sF64, 0, "ulog"+tag, 0, fmt.Sprintf("(ulog %s)", s.t), s.t), types.Float64)
		}
		return f(args[0].(float64))
	}
}

func rankTime(a stime) int {
	switch {
	case a.zero:
		return 0
	case a.far:
		return 1
	}
	return 2
}

func timeString(a stime) string {
	switch {
	case a.zero:
		return "0001-01-01T00:00:00Z"
	case a.far:
		return "<time near year 1>"
	}
	if s, ok := a.ns.(sym); ok {
		return "<time " + s.t.name + ">"
	}
	return time.Unix(0, a.ns.(int64)).UTC().Format(time.RFC3339Nano)
}

func timeSub(a, b stime) value {
	ra, rb := rankTime(a), rankTime(b)
	if ra < 2 || rb < 2 {
		switch {
		case ra == rb && ra == 0:
			return int64(0)
		case ra == rb:
			panic(modelAbort{"Sub of two times near year 1"})
		case ra > rb:
			return int64(math.MaxInt64)
		default:
			return int64(math.MinInt64)
		}
	}
	return binop(token.SUB, tI64, a.ns, b.ns)
}

func parseHex(s string) uint64 {
	var v uint64
	fmt.Sscanf(s, "%x", &v)
	return v
}

// ---------------------------------------------------------------- helpers for other models

func namedType(i *interpreter, pkgPath, name string) types.Type {
	p := i.prog.ImportedPackage(pkgPath)
	if p == nil {
		panic(infraError{"no package " + pkgPath})
	}
	return p.Type(name).Type()
}

func runtimeErrorString(i *interpreter, msg string) value {
	return iface{i.runtimeErrorString, "runtime error: " + msg}
}

func newError(i *interpreter, msg string) value {
	es := namedType(i, "errors", "errorString")
	var cell value = structure{msg}
	return iface{t: types.NewPointer(es), v: &cell}
}

// boundedIndex decides 0 <= idx < n symbolically before the index is concretised.
func boundedIndex(idx value, n int) int64 {
	if s, ok := idx.(sym); ok {
		w, signed := bitsOf(s.k)
		t := s.t
		if w < 64 {
			if signed {
				t = bvSext(t, 64)
			} else {
				t = bvZext(t, 64)
			}
		}
		in := bvCmp("bvult", t, bvConst(64, uint64(n)))
		if !E.decide(in) {
			panic(targetPanic{runtimeErrorString(theInterp, fmt.Sprintf("index out of range [symbolic] with length %d", n))})
		}
		return asInt64(concretise(s))
	}
	return asInt64(idx)
}

// callStringer calls the interpreted Error()/String() method of v if it has one.
func callStringer(fr *frame, v value) (string, bool) {
	x, ok := v.(iface)
	if !ok || x.t == nil {
		return "", false
	}
	for _, m := range []string{"Error", "String"} {
		ms := fr.i.prog.MethodSets.MethodSet(x.t)
		for j := 0; j < ms.Len(); j++ {
			sel := ms.At(j)
			if sel.Obj().Name() == m {
				sig := sel.Obj().Type().(*types.Signature)
				if sig.Params().Len() == 0 && sig.Results().Len() == 1 {
					fn := fr.i.prog.MethodValue(sel)
					if fn == nil {
						continue
					}
					r := call(fr.i, fr, token.NoPos, fn, []value{x.v})
					if s, ok := r.(string); ok {
						return s, true
					}
					if _, ok := r.(symstr); ok {
						return "<symstr>", true
					}
				}
			}
		}
	}
	return "", false
}

func native(fr *frame, v value) interface{} {
	switch x := v.(type) {
	case iface:
		if x.t == nil {
			return nil
		}
		if b, ok := x.t.Underlying().(*types.Basic); ok && b.Kind() == types.Int64 {
			if n, ok := x.t.(*types.Named); ok && n.Obj().Pkg() != nil && n.Obj().Pkg().Path() == "time" && n.Obj().Name() == "Duration" {
				if c, ok := x.v.(int64); ok {
					return time.Duration(c)
				}
			}
		}
		return native(fr, x.v)
	case sym:
		return "<sym:" + x.t.name + ">"
	case symstr:
		return "<symstr>"
	case stime:
		return timeString(x)
	case []value:
		// []byte prints as Go prints it; other slices element-wise
		out := make([]interface{}, len(x))
		allBytes := true
		for i, e := range x {
			out[i] = native(fr, e)
			if _, ok := e.(byte); !ok {
				allBytes = false
			}
		}
		if allBytes && len(x) > 0 {
			bs := make([]byte, len(x))
			for i, e := range x {
				bs[i] = e.(byte)
			}
			return bs
		}
		return out
	case structure, array, *value, *hashmap:
		return fmt.Sprintf("<%T>", x)
	case *ssa.Function, *closure:
		return "<func>"
	}
	return v
}

func sprintf(fr *frame, format string, args []value) string {
	var sb strings.Builder
	ai := 0
	for k := 0; k < len(format); k++ {
		c := format[k]
		if c != '%' {
			sb.WriteByte(c)
			continue
		}
		j := k + 1
		for j < len(format) && strings.IndexByte("+-# 0123456789.", format[j]) >= 0 {
			j++
		}
		if j >= len(format) {
			sb.WriteString(format[k:])
			break
		}
		verb := format[k : j+1]
		k = j
		if format[j] == '%' {
			sb.WriteByte('%')
			continue
		}
		if ai >= len(args) {
			sb.WriteString("%!" + string(format[j]) + "(MISSING)")
			continue
		}
		a := args[ai]
		ai++
		if format[j] == 'v' || format[j] == 's' || format[j] == 'q' {
			if s, ok := callStringer(fr, a); ok {
				sb.WriteString(fmt.Sprintf(strings.Replace(verb, "v", "s", 1), s))
				continue
			}
		}
		sb.WriteString(fmt.Sprintf(verb, native(fr, a)))
	}
	return sb.String()
}

func sprint(fr *frame, args []value, spaces bool) string {
	var sb strings.Builder
	for i, a := range args {
		if i > 0 && spaces {
			sb.WriteByte(' ')
		}
		if s, ok := callStringer(fr, a); ok {
			sb.WriteString(s)
			continue
		}
		sb.WriteString(fmt.Sprint(native(fr, a)))
	}
	return sb.String()
}

func varargs(v value) []value {
	if v == nil {
		return nil
	}
	return v.([]value)
}

func init() {
	noop := func(fr *frame, args []value) value { return nil }
	gologErr := func(fr *frame, args []value) value { return newError(fr.i, "golog error") }
	for k, v := range map[string]externalFn{
		"fmt.Sprintf": func(fr *frame, args []value) value {
			return sprintf(fr, args[0].(string), varargs(args[1]))
		},
		"fmt.Sprint":   func(fr *frame, args []value) value { return sprint(fr, varargs(args[0]), false) },
		"fmt.Sprintln": func(fr *frame, args []value) value { return sprint(fr, varargs(args[0]), true) + "\n" },
		"fmt.Errorf": func(fr *frame, args []value) value {
			return newError(fr.i, sprintf(fr, args[0].(string), varargs(args[1])))
		},
		"fmt.Fprintf":  func(fr *frame, args []value) value { return tuple{0, iface{}} },
		"fmt.Fprint":   func(fr *frame, args []value) value { return tuple{0, iface{}} },
		"fmt.Fprintln": func(fr *frame, args []value) value { return tuple{0, iface{}} },
		"fmt.Printf":   func(fr *frame, args []value) value { return tuple{0, iface{}} },
		"fmt.Println":  func(fr *frame, args []value) value { return tuple{0, iface{}} },
		"github.com/getlantern/msgpack.RegisterExt": noop,
		"encoding/gob.Register":                     noop,
		"github.com/getlantern/golog.LoggerFor": func(fr *frame, args []value) value {
			lt := namedType(fr.i, "github.com/getlantern/golog", "logger")
			var cell value = zero(lt)
			return iface{t: types.NewPointer(lt), v: &cell}
		},
		"(*github.com/getlantern/golog.logger).IsTraceEnabled": func(fr *frame, args []value) value { return false },
		"(*github.com/getlantern/golog.logger).Trace":          noop,
		"(*github.com/getlantern/golog.logger).Tracef":         noop,
		"(*github.com/getlantern/golog.logger).Debug":          noop,
		"(*github.com/getlantern/golog.logger).Debugf":         noop,
		"(*github.com/getlantern/golog.logger).Errorf":         gologErr,
		"(*github.com/getlantern/golog.logger).Error":          gologErr,
		"(*github.com/getlantern/golog.logger).Fatal": func(fr *frame, args []value) value {
			panic(targetPanic{newError(fr.i, "golog.Fatal (process exit)")})
		},
		"(*github.com/getlantern/golog.logger).Fatalf": func(fr *frame, args []value) value {
			panic(targetPanic{newError(fr.i, "golog.Fatalf (process exit)")})
		},
		"github.com/getlantern/errors.New": func(fr *frame, args []value) value {
			return newError(fr.i, "errors.New: "+fmt.Sprint(native(fr, args[0])))
		},
		"github.com/getlantern/errors.Wrap": func(fr *frame, args []value) value {
			if e, ok := args[0].(iface); ok && e.t == nil {
				return iface{}
			}
			return newError(fr.i, "errors.Wrap")
		},
		"internal/stringslite.Clone": func(fr *frame, args []value) value { return args[0] },
		"strings.Clone":              func(fr *frame, args []value) value { return args[0] },
		"internal/bytealg.MakeNoZero": func(fr *frame, args []value) value {
			n := int(asInt64(args[0]))
			b := make([]value, n)
			for i := range b {
				b[i] = byte(0)
			}
			return b
		},
		"internal/bytealg.IndexByteString": func(fr *frame, args []value) value {
			return indexByte(strBytes(args[0]), args[1])
		},
		"internal/bytealg.IndexByte": func(fr *frame, args []value) value {
			return indexByte(args[0].([]value), args[1])
		},
		"internal/bytealg.CountString": func(fr *frame, args []value) value {
			return countByte(strBytes(args[0]), args[1])
		},
		"internal/bytealg.Count": func(fr *frame, args []value) value {
			return countByte(args[0].([]value), args[1])
		},
		"internal/bytealg.IndexString": func(fr *frame, args []value) value {
			return indexBytes(strBytes(args[0]), strBytes(args[1]))
		},
		"internal/bytealg.Index": func(fr *frame, args []value) value {
			return indexBytes(args[0].([]value), args[1].([]value))
		},
		"internal/bytealg.Compare": func(fr *frame, args []value) value {
			return compareBytes(args[0].([]value), args[1].([]value))
		},
		"internal/bytealg.CompareString": func(fr *frame, args []value) value {
			return compareBytes(strBytes(args[0]), strBytes(args[1]))
		},
		"internal/bytealg.Equal": func(fr *frame, args []value) value {
			return bytesEq(args[0].([]value), args[1].([]value))
		},
		"bytes.Equal": func(fr *frame, args []value) value {
			return bytesEq(args[0].([]value), args[1].([]value))
		},
		"bytes.Compare": func(fr *frame, args []value) value {
			return compareBytes(args[0].([]value), args[1].([]value))
		},
		"internal/bytealg.HashStr": func(fr *frame, args []value) value { return uint32(0) },
		"(*strings.Builder).String": func(fr *frame, args []value) value {
			stv := (*args[0].(*value)).(structure)
			if stv[1] == nil {
				return ""
			}
			return mkStr(stv[1].([]value))
		},
		"(*strings.Builder).copyCheck": noop,
		"(*sync.Mutex).Lock":           noop,
		"(*sync.Mutex).Unlock":         noop,
		"(*sync.Mutex).TryLock":        func(fr *frame, args []value) value { return true },
		"(*sync.RWMutex).Lock":         noop,
		"(*sync.RWMutex).Unlock":       noop,
		"(*sync.RWMutex).RLock":        noop,
		"(*sync.RWMutex).RUnlock":      noop,
		"(*sync.WaitGroup).Add":        wgAdd,
		"(*sync.WaitGroup).Done":       func(fr *frame, args []value) value { return wgAdd(fr, []value{args[0], -1}) },
		"(*sync.WaitGroup).Wait":       wgWait,
		"(*sync.Once).Do": func(fr *frame, args []value) value {
			p := args[0].(*value)
			if onceDone[p] {
				return nil
			}
			onceDone[p] = true
			call(fr.i, fr, token.NoPos, args[1], nil)
			return nil
		},
		"(*sync.Pool).Get": func(fr *frame, args []value) value {
			stv := (*args[0].(*value)).(structure)
			newf := stv[len(stv)-1]
			switch f := newf.(type) {
			case *ssa.Function:
				if f == nil {
					return iface{}
				}
			case nil:
				return iface{}
			}
			return call(fr.i, fr, token.NoPos, newf, nil)
		},
		"(*sync.Pool).Put": noop,
		"sync/atomic.AddInt64": func(fr *frame, args []value) value {
			p := args[0].(*value)
			*p = binop(token.ADD, tI64, *p, args[1])
			return *p
		},
		"sync/atomic.AddInt32": func(fr *frame, args []value) value {
			p := args[0].(*value)
			*p = binop(token.ADD, types.Typ[types.Int32], *p, args[1])
			return *p
		},
		"sync/atomic.AddUint64": func(fr *frame, args []value) value {
			p := args[0].(*value)
			*p = binop(token.ADD, types.Typ[types.Uint64], *p, args[1])
			return *p
		},
		"sync/atomic.LoadInt64":   func(fr *frame, args []value) value { return *args[0].(*value) },
		"sync/atomic.LoadInt32":   func(fr *frame, args []value) value { return *args[0].(*value) },
		"sync/atomic.LoadUint64":  func(fr *frame, args []value) value { return *args[0].(*value) },
		"sync/atomic.LoadUint32":  func(fr *frame, args []value) value { return *args[0].(*value) },
		"sync/atomic.StoreInt64":  func(fr *frame, args []value) value { *args[0].(*value) = args[1]; return nil },
		"sync/atomic.StoreInt32":  func(fr *frame, args []value) value { *args[0].(*value) = args[1]; return nil },
		"sync/atomic.StoreUint64": func(fr *frame, args []value) value { *args[0].(*value) = args[1]; return nil },
		"sync/atomic.StoreUint32": func(fr *frame, args []value) value { *args[0].(*value) = args[1]; return nil },
		"sync/atomic.CompareAndSwapInt32": casModel,
		"sync/atomic.CompareAndSwapInt64": casModel,
		"sync/atomic.CompareAndSwapUint32": casModel,
		"context.WithValue": func(fr *frame, args []value) value {
			vt := namedType(fr.i, "context", "valueCtx")
			var cell value = structure{args[0], args[1], args[2]}
			return iface{t: types.NewPointer(vt), v: &cell}
		},
		"errors.Is": func(fr *frame, args []value) value {
			a, b := args[0].(iface), args[1].(iface)
			if a.t == nil || b.t == nil {
				return a.t == nil && b.t == nil
			}
			r := symEquals(nil, a, b)
			return r
		},
		"runtime.GC":         noop,
		"runtime.Gosched":    noop,
		"runtime.NumCPU":     func(fr *frame, args []value) value { return 4 },
		"runtime.GOMAXPROCS": func(fr *frame, args []value) value { return 4 },
		"os.Getenv":          func(fr *frame, args []value) value { return "" },
	} {
		externals[k] = v
	}
}

var onceDone = map[*value]bool{}

func casModel(fr *frame, args []value) value {
	p := args[0].(*value)
	if condBool(symEquals(nil, *p, args[1])) {
		*p = args[2]
		return true
	}
	return false
}

// WaitGroup: counter kept in a side table; Wait runs pending goroutines (T3).
var wgCount = map[*value]int{}

func wgAdd(fr *frame, args []value) value {
	p := args[0].(*value)
	wgCount[p] += int(asInt64(args[1]))
	return nil
}

func wgWait(fr *frame, args []value) value {
	p := args[0].(*value)
	for wgCount[p] > 0 {
		if !runPending(fr.i) {
			panic(blocked{})
		}
	}
	return nil
}

func indexByte(bs []value, c value) value {
	for i, b := range bs {
		if condBool(binop(token.EQL, tByte, b, c)) {
			return i
		}
	}
	return -1
}

func countByte(bs []value, c value) value {
	n := 0
	for _, b := range bs {
		if condBool(binop(token.EQL, tByte, b, c)) {
			n++
		}
	}
	return n
}

func indexBytes(s, sep []value) value {
	if len(sep) == 0 {
		return 0
	}
	for i := 0; i+len(sep) <= len(s); i++ {
		if condBool(bytesEq(s[i:i+len(sep)], sep)) {
			return i
		}
	}
	return -1
}

func compareBytes(a, b []value) value {
	if condBool(bytesLess(a, b)) {
		return -1
	}
	if condBool(bytesLess(b, a)) {
		return 1
	}
	return 0
}
