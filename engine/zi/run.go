package zi

import (
	"fmt"
	"go/token"
	"go/types"
	"os"
	"runtime"
	"strings"

	"golang.org/x/tools/go/ssa"
)

var theInterp *interpreter

var callStack []*ssa.Function

// TargetStack renders the interpreted call stack (innermost last).
func TargetStack() string {
	var sb strings.Builder
	n := len(callStack)
	for i := n - 1; i >= 0 && i >= n-25; i-- {
		sb.WriteString("\n    at " + callStack[i].String())
	}
	return sb.String()
}

// FuncHits counts activations per SSA function (evidence: "functions encoded").
var FuncHits = map[*ssa.Function]int{}

// Replacements maps a qualified callee name (fn.String()) to the harness function replacing it.
var Replacements = map[string]*ssa.Function{}

func replacementFor(fn *ssa.Function, name string) *ssa.Function {
	if len(Replacements) == 0 {
		return nil
	}
	if rf := Replacements[name]; rf != nil && rf != fn {
		return rf
	}
	return nil
}

func underReplacement(caller *frame, rf *ssa.Function) bool {
	for fr := caller; fr != nil; fr = fr.caller {
		if fr.fn == rf {
			return true
		}
	}
	return false
}

var initStores = map[*ssa.Package]map[*ssa.Global]bool{}

// globalReadOK: a global of a package whose init did not run may be used only if no init
// function of that package assigns it (its zero value is then its initial value).
func globalReadOK(g *ssa.Global) bool {
	p := g.Pkg
	if p.Pkg.Path() == "time" && (g.Name() == "UTC" || g.Name() == "Local") {
		// only ever passed to the modelled (time.Time).In / time.Date, which ignore the location
		return true
	}
	m := initStores[p]
	if m == nil {
		m = map[*ssa.Global]bool{}
		for name, mem := range p.Members {
			f, ok := mem.(*ssa.Function)
			if !ok || !(name == "init" || strings.HasPrefix(name, "init#")) {
				continue
			}
			for _, b := range f.Blocks {
				for _, in := range b.Instrs {
					if st, ok := in.(*ssa.Store); ok {
						if gg, ok := st.Addr.(*ssa.Global); ok {
							m[gg] = true
						}
					}
					// field/index stores into a global aggregate
					if fa, ok := in.(*ssa.FieldAddr); ok {
						if gg, ok := fa.X.(*ssa.Global); ok {
							m[gg] = true
						}
					}
					if ia, ok := in.(*ssa.IndexAddr); ok {
						if gg, ok := ia.X.(*ssa.Global); ok {
							m[gg] = true
						}
					}
				}
			}
		}
		initStores[p] = m
	}
	if strings.HasPrefix(g.Name(), "init$guard") {
		return true
	}
	return !m[g]
}

// NewInterp prepares an interpreter for prog and runs the allowed package initialisers once.
func NewInterp(prog *ssa.Program, main *ssa.Package, mode Mode) (err interface{}) {
	i := &interpreter{prog: prog, globals: make(map[*ssa.Global]*value), mode: mode,
		sizes: &types.StdSizes{WordSize: 8, MaxAlign: 8}, goroutines: 1, initDone: map[*ssa.Package]bool{}}
	runtimePkg := prog.ImportedPackage("runtime")
	if runtimePkg == nil {
		panic(infraError{"program does not include package runtime"})
	}
	i.runtimeErrorString = runtimePkg.Type("errorString").Object().Type()
	initReflect(i)
	for _, p := range prog.AllPackages() {
		for _, m := range p.Members {
			if v, ok := m.(*ssa.Global); ok {
				cell := zero(mustDeref(v.Type()))
				i.globals[v] = &cell
			}
		}
	}
	theInterp = i
	defer func() {
		if r := recover(); r != nil {
			err = fmt.Sprint(describePanic(r)) + TargetStack()
			callStack = nil
		}
	}()
	// initialisation runs concretely, outside any path
	E.nameSeq = map[string]int{}
	E.frozen = map[*value]string{}
	E.reached = map[string]bool{}
	E.inputKind = map[*Term]string{}
	call(i, nil, token.NoPos, main.Func("init"), nil)
	return nil
}

func describePanic(r interface{}) interface{} {
	switch p := r.(type) {
	case targetPanic:
		return fmt.Sprintf("target panic during init: %s", toString(p.v))
	case runtime.Error:
		buf := make([]byte, 1<<14)
		n := runtime.Stack(buf, false)
		return fmt.Sprintf("runtime error: %v\n%s", p, buf[:n])
	}
	return r
}

// RunHarness executes one path of the harness function fn.
func RunHarness(main *ssa.Package, fnName string) (err interface{}) {
	i := theInterp
	i.pending = nil
	onceDone = map[*value]bool{}
	wgCount = map[*value]int{}
	f := main.Func(fnName)
	if f == nil {
		panic(infraError{"no harness function " + fnName + " in " + main.Pkg.Path()})
	}
	defer func() {
		if r := recover(); r != nil {
			switch p := r.(type) {
			case runtime.Error:
				if os.Getenv("ZX_DEBUG") != "" {
					buf := make([]byte, 1<<14)
					n := runtime.Stack(buf, false)
					fmt.Fprintf(os.Stderr, "runtime error escaping harness: %v\n%s\n", p, buf[:n])
				}
				// a Go runtime error inside the interpreter models a target runtime panic
				err = targetPanic{iface{i.runtimeErrorString, p.Error()}}
			case string:
				if os.Getenv("ZX_DEBUG") != "" {
					buf := make([]byte, 1<<14)
					n := runtime.Stack(buf, false)
					fmt.Fprintf(os.Stderr, "interpreter panic escaping harness: %v\n%s\n", p, buf[:n])
				}
				err = targetPanic{iface{i.runtimeErrorString, p}}
			default:
				err = r
			}
		}
	}()
	call(i, nil, token.NoPos, f, nil)
	return nil
}

// ResetAll clears every piece of engine state so that a worker can run several jobs.
func ResetAll(realMode bool) {
	T = newTermStore(realMode)
	bvConsts = map[[2]uint64]*Term{}
	facts = map[*Term]*fact{}
	FuncHits = map[*ssa.Function]int{}
	initStores = map[*ssa.Package]map[*ssa.Global]bool{}
	onceDone = map[*value]bool{}
	wgCount = map[*value]int{}
	Replacements = map[string]*ssa.Function{}
	E, Z, Z2 = nil, nil, nil
}
