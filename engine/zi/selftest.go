package zi

import (
	"fmt"
	"math/rand"
	"strings"
)

// SelfTest checks the term simplifier against the solver: random expression trees over ranged
// 64-bit variables and bytes are built twice — through the simplifying constructors (linear
// normal form, byte lanes, range-based comparison / division) and as raw SMT-LIB text — and the
// solver must find (simplified != raw) unsatisfiable under the range facts. It also checks that
// the solver answers sat/unsat on a trivial pair and that an "(error" answer is not a verdict.
func SelfTest(solver string, n int, seed int64) (queries int, unknown int, failures []string) {
	T = newTermStore(false)
	facts = map[*Term]*fact{}
	z := NewSolver(solver, 3000)
	defer z.Close()
	rng := rand.New(rand.NewSource(seed))
	var assume []*Term
	mkVar := func(name string, lo, hi int64) *Term {
		v := declare(name, bvSort(64), 64)
		facts[v] = &fact{hasRange: true, lo: lo, hi: hi}
		l, h := bvConst(64, uint64(lo)), bvConst(64, uint64(hi))
		assume = append(assume, mkOp("Bool", 0, "rawsle", 0, fmt.Sprintf("(bvsle %s %s)", l, v), l, v))
		assume = append(assume, mkOp("Bool", 0, "rawsle", 0, fmt.Sprintf("(bvsle %s %s)", v, h), v, h))
		return v
	}
	vars := []*Term{mkVar("st_x", 0, 1<<40), mkVar("st_y", -1000, 1000), mkVar("st_m", 1100, 4611686017), declare("st_f", bvSort(64), 64)}
	bytes := []*Term{declare("st_b0", bvSort(8), 8), declare("st_b1", bvSort(8), 8), declare("st_b2", bvSort(8), 8)}
	rawText := map[*Term]string{}
	raw := func(width int, def string) *Term {
		sort := "Bool"
		if width > 0 {
			sort = bvSort(width)
		}
		t := mkOp(sort, width, "selftest-raw", 0, def)
		full := def
		for k, v := range rawText {
			full = strings.ReplaceAll(full, k.name+" ", v+" ")
			full = strings.ReplaceAll(full, k.name+")", v+")")
		}
		rawText[t] = full
		return t
	}
	consts := []uint64{0, 1, 2, 3, 8, 255, 256, 1000, 1 << 30, 1000000000, 48627712, ^uint64(0), ^uint64(0) - 6}
	// gen returns (simplified, raw) of width 64
	var gen func(d int) (*Term, *Term)
	gen = func(d int) (*Term, *Term) {
		if d == 0 || rng.Intn(5) == 0 {
			switch rng.Intn(4) {
			case 0:
				c := consts[rng.Intn(len(consts))]
				return bvConst(64, c), bvConst(64, c)
			case 1:
				b := bytes[rng.Intn(len(bytes))]
				return bvZext(b, 64), raw(64, fmt.Sprintf("((_ zero_extend 56) %s)", b))
			default:
				v := vars[rng.Intn(len(vars))]
				return v, v
			}
		}
		a, ra := gen(d - 1)
		switch rng.Intn(13) {
		case 0:
			b, rb := gen(d - 1)
			return bvAdd(a, b), raw(64, fmt.Sprintf("(bvadd %s %s)", ra, rb))
		case 1:
			b, rb := gen(d - 1)
			return bvSub(a, b), raw(64, fmt.Sprintf("(bvsub %s %s)", ra, rb))
		case 2:
			return bvNeg(a), raw(64, fmt.Sprintf("(bvneg %s)", ra))
		case 3:
			c := bvConst(64, consts[rng.Intn(len(consts))])
			return bvMul(a, c), raw(64, fmt.Sprintf("(bvmul %s %s)", ra, c))
		case 4:
			c := uint64(rng.Intn(9) * 8)
			if rng.Intn(3) == 0 {
				c = uint64(rng.Intn(64))
			}
			return bvShift("shl", false, a, c), raw(64, fmt.Sprintf("(bvshl %s %s)", ra, bvConst(64, c)))
		case 5:
			c := uint64(rng.Intn(9) * 8)
			if rng.Intn(3) == 0 {
				c = uint64(rng.Intn(64))
			}
			return bvShift("shr", false, a, c), raw(64, fmt.Sprintf("(bvlshr %s %s)", ra, bvConst(64, c)))
		case 6:
			b, rb := gen(d - 1)
			op := []string{"bvand", "bvor", "bvxor"}[rng.Intn(3)]
			return bvBit(op, a, b), raw(64, fmt.Sprintf("(%s %s %s)", op, ra, rb))
		case 7:
			// byte extraction and re-extension: uint64(byte(x >> 8k))
			k := rng.Intn(8)
			return bvZext(extract8(a, k), 64), raw(64, fmt.Sprintf("((_ zero_extend 56) ((_ extract %d %d) %s))", 8*k+7, 8*k, ra))
		case 8:
			to := []int{8, 16, 32}[rng.Intn(3)]
			return bvZext(bvExtractLow(a, to), 64), raw(64, fmt.Sprintf("((_ zero_extend %d) ((_ extract %d 0) %s))", 64-to, to-1, ra))
		case 9:
			c := bvConst(64, []uint64{1000, 1 << 30, 1000000000, 7}[rng.Intn(4)])
			op := []string{"bvsdiv", "bvsrem"}[rng.Intn(2)]
			return bvDivRem(op, a, c), raw(64, fmt.Sprintf("(%s %s %s)", op, ra, c))
		case 10:
			b, rb := gen(d - 1)
			c, rc := gen(d - 1)
			op := []string{"bvslt", "bvsle", "bvult", "bvule"}[rng.Intn(4)]
			return tIte(bvCmp(op, a, b), c, a), raw(64, fmt.Sprintf("(ite (%s %s %s) %s %s)", op, ra, rb, rc, ra))
		case 11:
			b, rb := gen(d - 1)
			c, rc := gen(d - 1)
			return tIte(tEq(a, b), c, b), raw(64, fmt.Sprintf("(ite (= %s %s) %s %s)", ra, rb, rc, rb))
		default:
			to := 32
			return bvSext(bvExtractLow(a, to), 64), raw(64, fmt.Sprintf("((_ sign_extend 32) ((_ extract 31 0) %s))", ra))
		}
	}
	// the solver itself
	if r, _ := z.Check(nil, []*Term{boolConst(true)}, nil); r != "sat" {
		failures = append(failures, "solver does not answer sat on true: "+r)
	}
	if r, _ := z.Check(nil, []*Term{tNot(tEq(vars[0], vars[0]))}, nil); r != "unsat" {
		failures = append(failures, "solver does not answer unsat on x != x: "+r)
	}
	queries += 2
	for i := 0; i < n; i++ {
		s, r := gen(3)
		if s == r {
			continue
		}
		neq := mkOp("Bool", 0, "selftest-raw", 0, fmt.Sprintf("(not (= %s %s))", s, r), s, r)
		get := append([]*Term{s, r}, vars...)
		get = append(get, bytes...)
		res, vals := z.Check(assume, []*Term{neq}, get)
		queries++
		if res == "unknown" {
			unknown++ // a time-out (division by a constant) decides nothing either way
			continue
		}
		if res != "unsat" {
			failures = append(failures, fmt.Sprintf("tree %d: simplified %s vs raw %s: solver says %s %v", i, describe(s, 6), rawText[r], res, vals))
			if len(failures) > 5 {
				break
			}
		}
	}
	// last (the malformed definition stays in the term store): an "(error" answer is no verdict
	func() {
		defer func() {
			if recover() != nil {
				// the solver exited on the error: also not a verdict
			}
		}()
		bad := mkOp("Bool", 0, "selftest-raw", 0, "(this-is-not-smtlib)")
		queries++
		if r, _ := z.Check(nil, []*Term{bad}, nil); r != "unknown" {
			failures = append(failures, "an (error answer was taken as a verdict: "+r)
		}
	}()
	return
}
