package zi

import (
	"bufio"
	"fmt"
	"io"
	"os"
	"os/exec"
	"sort"
	"strings"
	"syscall"
	"time"
)

// Solver is one long-lived SMT process driven over stdin/stdout (DESIGN §2.4, Appendix A).
type Solver struct {
	Name   string
	argv   []string
	cmd    *exec.Cmd
	in     io.WriteCloser
	w      *bufio.Writer
	out    *bufio.Reader
	defPos int
	stack  []*Term
	Calls  int
	Time   time.Duration
	Errors int
	log    *os.File
	Res    map[string]int
	cache  map[string]string
	CacheHits int
	Crashes   int     // times the solver process died on a query (restarted, query re-asked elsewhere)
	timeoutMs int
	fallback  *Solver // started on the first crash: another solver for the query that killed this one
	noFallback bool
}

// solverDied is raised when the solver process closes its pipe in the middle of a query (cvc5
// 1.0.3 aborts with "cadical: fatal error: invalid API usage" on some nonlinear-real queries).
type solverDied struct{ why string }

// SolverSpec: "cvc5", "z3", "z3-new", "cvc5-int" (cvc5 with --solve-bv-as-int=sum).
func NewSolver(spec string, timeoutMs int) *Solver {
	var argv []string
	switch spec {
	case "cvc5":
		argv = []string{"cvc5", "--incremental", "--lang=smt2", fmt.Sprintf("--tlimit-per=%d", timeoutMs)}
	case "cvc5-int":
		argv = []string{"cvc5", "--incremental", "--lang=smt2", "--solve-bv-as-int=sum", fmt.Sprintf("--tlimit-per=%d", timeoutMs)}
	case "z3":
		argv = []string{"z3", "-in", fmt.Sprintf("-t:%d", timeoutMs)}
	case "z3-new":
		argv = []string{"z3-new", "-in", fmt.Sprintf("-t:%d", timeoutMs)}
	default:
		argv = strings.Fields(spec)
	}
	s := &Solver{Name: spec, argv: argv, Res: map[string]int{}, cache: map[string]string{}, timeoutMs: timeoutMs}
	s.start()
	return s
}

func (s *Solver) start() {
	cmd := exec.Command(s.argv[0], s.argv[1:]...)
	// blocking pipes: a query is a synchronous round trip, the netpoller only adds futex traffic
	var p1, p2 [2]int
	if err := syscall.Pipe2(p1[:], syscall.O_CLOEXEC); err != nil {
		panic(infraError{"pipe: " + err.Error()})
	}
	if err := syscall.Pipe2(p2[:], syscall.O_CLOEXEC); err != nil {
		panic(infraError{"pipe: " + err.Error()})
	}
	childIn, in := os.NewFile(uintptr(p1[0]), "solver-stdin-r"), os.NewFile(uintptr(p1[1]), "solver-stdin-w")
	out, childOut := os.NewFile(uintptr(p2[0]), "solver-stdout-r"), os.NewFile(uintptr(p2[1]), "solver-stdout-w")
	cmd.Stdin, cmd.Stdout = childIn, childOut
	cmd.Stderr = nil
	if err := cmd.Start(); err != nil {
		panic(infraError{"cannot start solver " + s.argv[0] + ": " + err.Error()})
	}
	childIn.Close()
	childOut.Close()
	s.cmd, s.in, s.out = cmd, in, bufio.NewReaderSize(out, 1<<16)
	s.w = bufio.NewWriterSize(in, 1<<16)
	s.defPos = 0
	s.stack = nil
	if p := os.Getenv("ZX_SMTLOG"); p != "" && s.log == nil {
		s.log, _ = os.Create(p + "." + s.Name)
	}
	s.send("(set-option :global-declarations true)")
	s.send("(set-option :produce-models true)")
	s.send("(set-logic ALL)")
}

func (s *Solver) Close() {
	if s.cmd != nil {
		s.w.Flush()
		s.in.Close()
		s.cmd.Process.Kill()
		s.cmd.Wait()
		s.cmd = nil
	}
}

func (s *Solver) restart() {
	s.Close()
	s.start()
}

func (s *Solver) send(l string) {
	if s.log != nil {
		fmt.Fprintln(s.log, l)
	}
	s.w.WriteString(l)
	s.w.WriteByte('\n')
}

func (s *Solver) line() string {
	s.w.Flush()
	l, err := s.out.ReadString('\n')
	if err != nil {
		panic(solverDied{"solver " + s.Name + " died: " + err.Error()})
	}
	return strings.TrimSpace(l)
}

// readSexp reads one balanced s-expression (possibly spanning lines).
func (s *Solver) readSexp() string {
	var sb strings.Builder
	depth := 0
	started := false
	for {
		l := s.line()
		if l == "" && !started {
			continue
		}
		sb.WriteString(l)
		sb.WriteByte(' ')
		inStr := false
		for _, c := range l {
			switch {
			case c == '"':
				inStr = !inStr
			case inStr:
			case c == '(':
				depth++
				started = true
			case c == ')':
				depth--
			default:
				started = true
			}
		}
		if started && depth <= 0 {
			return strings.TrimSpace(sb.String())
		}
	}
}

func (s *Solver) syncDefs() {
	for ; s.defPos < len(T.defs); s.defPos++ {
		s.send(T.defs[s.defPos])
	}
}

// sync makes the assertion stack equal to pc (pop to the common prefix, push the rest).
func (s *Solver) sync(pc []*Term) {
	s.syncDefs()
	i := 0
	for i < len(s.stack) && i < len(pc) && s.stack[i] == pc[i] {
		i++
	}
	if i < len(s.stack) {
		s.send(fmt.Sprintf("(pop %d)", len(s.stack)-i))
		s.stack = s.stack[:i]
	}
	for ; i < len(pc); i++ {
		s.send("(push 1)")
		s.send(fmt.Sprintf("(assert %s)", pc[i]))
		s.stack = append(s.stack, pc[i])
	}
}

// CheckSliced decides pc ∧ extra using only the constraints of pc that share variables,
// transitively, with extra (constraint independence: the omitted constraints are over disjoint
// variables and, being part of a satisfiable path condition, are satisfiable on their own, so the
// verdict is exact). Verdicts are cached per (slice, extra) — slices recur across paths.
func (s *Solver) CheckSliced(pc []*Term, extra []*Term) (res string) {
	defer func() {
		if p := recover(); p != nil {
			d, ok := p.(solverDied)
			if !ok {
				panic(p)
			}
			res = s.afterCrash(d, func(f *Solver) string { return f.CheckSliced(pc, extra) })
		}
	}()
	need := map[int]bool{}
	for _, e := range extra {
		for _, v := range varsOf(e) {
			need[v] = true
		}
	}
	included := make([]bool, len(pc))
	var slice []*Term
	for changed := true; changed; {
		changed = false
		for i, c := range pc {
			if included[i] {
				continue
			}
			vs := varsOf(c)
			hit := false
			for _, v := range vs {
				if need[v] {
					hit = true
					break
				}
			}
			if hit {
				included[i] = true
				slice = append(slice, c)
				for _, v := range vs {
					if !need[v] {
						need[v] = true
						changed = true
					}
				}
			}
		}
	}
	ids := make([]int, 0, len(slice)+len(extra)+1)
	for _, c := range slice {
		ids = append(ids, c.id)
	}
	sort.Ints(ids)
	var kb strings.Builder
	for _, id := range ids {
		fmt.Fprintf(&kb, "%d,", id)
	}
	kb.WriteByte('|')
	for _, e := range extra {
		fmt.Fprintf(&kb, "%d,", e.id)
	}
	key := kb.String()
	if r, ok := s.cache[key]; ok {
		s.CacheHits++
		return r
	}
	t0 := time.Now()
	s.Calls++
	s.syncDefs()
	if len(s.stack) > 0 {
		s.send(fmt.Sprintf("(pop %d)", len(s.stack)))
		s.stack = nil
	}
	s.send("(push 1)")
	for _, c := range slice {
		s.send(fmt.Sprintf("(assert %s)", c))
	}
	for _, e := range extra {
		s.send(fmt.Sprintf("(assert %s)", e))
	}
	s.send("(check-sat)")
	r := s.line()
	for r == "" {
		r = s.line()
	}
	s.send("(pop 1)")
	if strings.HasPrefix(r, "(error") {
		s.Errors++
		if os.Getenv("ZX_DEBUG") != "" {
			fmt.Fprintln(os.Stderr, "solver error:", r)
		}
		r = "unknown"
	}
	if r != "sat" && r != "unsat" {
		r = "unknown"
	}
	s.Res[r]++
	if el := time.Since(t0); el > 300*time.Millisecond && os.Getenv("ZX_SLOW") != "" {
		fmt.Fprintf(os.Stderr, "SLOW %v %s slice=%d/%d extra=", el.Round(time.Millisecond), r, len(slice), len(pc))
		for _, a := range extra {
			fmt.Fprintf(os.Stderr, "%s ", describe(a, 3))
		}
		fmt.Fprintln(os.Stderr)
	}
	s.Time += time.Since(t0)
	if r != "unknown" {
		s.cache[key] = r
	}
	return r
}

// Check asks for satisfiability of pc ∧ extra; with get != nil and a sat answer the values of
// those terms are returned as SMT-LIB text. The result is "sat", "unsat" or "unknown"; any
// "(error" output makes the answer "unknown" (inconclusive) and is counted.
func (s *Solver) Check(pc []*Term, extra []*Term, get []*Term) (res string, vals []string) {
	defer func() {
		if p := recover(); p != nil {
			d, ok := p.(solverDied)
			if !ok {
				panic(p)
			}
			res = s.afterCrash(d, func(f *Solver) string {
				r, v := f.Check(pc, extra, get)
				vals = v
				return r
			})
		}
	}()
	t0 := time.Now()
	s.Calls++
	s.sync(pc)
	s.send("(push 1)")
	for _, a := range extra {
		s.send(fmt.Sprintf("(assert %s)", a))
	}
	s.send("(check-sat)")
	r := s.line()
	for r == "" {
		r = s.line()
	}
	if strings.HasPrefix(r, "(error") {
		s.Errors++
		if os.Getenv("ZX_DEBUG") != "" {
			fmt.Fprintln(os.Stderr, "solver error:", r)
		}
		// drain nothing more: errors are single s-expressions; make the verdict inconclusive
		r = "unknown"
	} else if r == "sat" && len(get) > 0 {
		for _, g := range get {
			s.send(fmt.Sprintf("(get-value (%s))", g))
			v := s.readSexp()
			if strings.HasPrefix(v, "(error") {
				s.Errors++
				vals = append(vals, "")
				continue
			}
			// ((name value)) -> value
			v = strings.TrimSpace(v)
			v = strings.TrimPrefix(v, "((")
			v = strings.TrimSuffix(v, "))")
			v = strings.TrimSpace(v)
			if i := strings.IndexAny(v, " \t"); i >= 0 && !strings.HasPrefix(v, "(") {
				v = strings.TrimSpace(v[i:])
			} else if strings.HasPrefix(v, "(") {
				// name itself is an s-expression (literal term): skip one balanced expr
				d := 0
				for j, c := range v {
					if c == '(' {
						d++
					} else if c == ')' {
						d--
						if d == 0 {
							v = strings.TrimSpace(v[j+1:])
							break
						}
					}
				}
			}
			vals = append(vals, v)
		}
	}
	s.send("(pop 1)")
	if r != "sat" && r != "unsat" {
		if r != "unknown" && !strings.HasPrefix(r, "timeout") {
			if os.Getenv("ZX_DEBUG") != "" {
				fmt.Fprintln(os.Stderr, "solver said:", r)
			}
		}
		r = "unknown"
	}
	s.Res[r]++
	if el := time.Since(t0); el > 300*time.Millisecond && os.Getenv("ZX_SLOW") != "" {
		fmt.Fprintf(os.Stderr, "SLOW %v %s pc=%d extra=", el.Round(time.Millisecond), r, len(pc))
		for _, a := range extra {
			fmt.Fprintf(os.Stderr, "%s ", describe(a, 3))
		}
		fmt.Fprintln(os.Stderr)
	}
	s.Time += time.Since(t0)
	return r, vals
}

// afterCrash restarts the dead solver and puts the query that killed it to the fallback solver
// (z3); without one, or if that dies too, the verdict is "unknown" (inconclusive, never success).
func (s *Solver) afterCrash(d solverDied, ask func(*Solver) string) string {
	s.Crashes++
	if os.Getenv("ZX_DEBUG") != "" {
		fmt.Fprintln(os.Stderr, d.why)
	}
	func() {
		defer func() { recover() }()
		s.restart()
	}()
	if s.noFallback {
		panic(d) // the fallback itself died
	}
	if s.fallback == nil {
		fb := "z3"
		if strings.HasPrefix(s.Name, "z3") {
			fb = "cvc5"
		}
		func() {
			defer func() {
				if recover() != nil {
					s.fallback = nil
				}
			}()
			s.fallback = NewSolver(fb, s.timeoutMs)
			s.fallback.noFallback = true
		}()
	}
	if s.fallback == nil {
		s.Res["unknown"]++
		return "unknown"
	}
	res := "unknown"
	func() {
		defer func() {
			if recover() != nil {
				s.fallback.Close()
				s.fallback = nil
			}
		}()
		res = ask(s.fallback)
	}()
	s.Res[res]++
	return res
}

// describe prints a term's definition to the given depth (debugging).
func describe(t *Term, depth int) string {
	if t.isConst || t.op == "var" || depth == 0 || len(t.args) == 0 {
		return t.name
	}
	parts := []string{t.op}
	if t.op == "lin" {
		parts = nil
		for _, a := range t.lin.atoms {
			parts = append(parts, fmt.Sprintf("%d*%s", int64(a.k), describe(a.t, depth-1)))
		}
		parts = append(parts, fmt.Sprintf("%d", int64(t.lin.c)))
		return "(+ " + strings.Join(parts, " ") + ")"
	}
	for _, a := range t.args {
		parts = append(parts, describe(a, depth-1))
	}
	return "(" + strings.Join(parts, " ") + ")"
}
