package zi

import (
	"fmt"
	"go/token"
	"go/types"
	"math"
)

// sym is a symbolic scalar: an SMT term plus the Go basic kind it stands for.
type sym struct {
	t *Term
	k types.BasicKind
}

func isSym(v value) bool { _, ok := v.(sym); return ok }

func kindOf(t types.Type) types.BasicKind {
	b, ok := t.Underlying().(*types.Basic)
	if !ok {
		panic(infraError{"kindOf: not basic: " + t.String()})
	}
	k := b.Kind()
	switch k {
	case types.UntypedInt:
		k = types.Int
	case types.UntypedFloat:
		k = types.Float64
	case types.UntypedBool:
		k = types.Bool
	case types.UntypedRune:
		k = types.Int32
	}
	return k
}

func bitsOf(k types.BasicKind) (n int, signed bool) {
	switch k {
	case types.Int, types.Int64:
		return 64, true
	case types.Int32:
		return 32, true
	case types.Int16:
		return 16, true
	case types.Int8:
		return 8, true
	case types.Uint, types.Uint64, types.Uintptr:
		return 64, false
	case types.Uint32:
		return 32, false
	case types.Uint16:
		return 16, false
	case types.Uint8:
		return 8, false
	}
	return 0, false
}

func toTerm(v value, k types.BasicKind) *Term {
	switch x := v.(type) {
	case sym:
		return x.t
	case bool:
		return boolConst(x)
	case float64:
		return fpConst(x)
	case float32:
		return fpConst(float64(x))
	}
	n, _ := bitsOf(k)
	if n == 0 {
		panic(infraError{fmt.Sprintf("toTerm: kind %v value %T", k, v)})
	}
	switch v.(type) {
	case uint, uint8, uint16, uint32, uint64, uintptr:
		return bvConst(n, asUint64(v))
	}
	return bvConst(n, uint64(asInt64(v)))
}

func concreteOf(k types.BasicKind, u uint64) value {
	switch k {
	case types.Int:
		return int(int64(u))
	case types.Int64:
		return int64(u)
	case types.Int32:
		return int32(u)
	case types.Int16:
		return int16(u)
	case types.Int8:
		return int8(u)
	case types.Uint:
		return uint(u)
	case types.Uint64:
		return u
	case types.Uintptr:
		return uintptr(u)
	case types.Uint32:
		return uint32(u)
	case types.Uint16:
		return uint16(u)
	case types.Uint8:
		return uint8(u)
	case types.Bool:
		return u != 0
	case types.Float64:
		return math.Float64frombits(u)
	}
	panic(infraError{fmt.Sprintf("concreteOf kind %v", k)})
}

// symOf wraps a term, collapsing constants back into concrete Go values.
func symOf(t *Term, k types.BasicKind) value {
	if t.isConst {
		if t.op == "fconst" {
			return math.Float64frombits(t.cval)
		}
		return concreteOf(k, t.cval)
	}
	return sym{t, k}
}

func symBinop(op token.Token, t types.Type, x, y value) value {
	k := kindOf(t)
	if k == types.Bool {
		a, b := toTerm(x, k), toTerm(y, k)
		switch op {
		case token.EQL:
			return symOf(tEq(a, b), types.Bool)
		case token.NEQ:
			return symOf(tNot(tEq(a, b)), types.Bool)
		}
		panic(infraError{"bool binop " + op.String()})
	}
	if k == types.Float64 || k == types.Float32 {
		if k == types.Float32 {
			panic(modelAbort{"float32 arithmetic on symbolic values"})
		}
		a, b := toTerm(x, k), toTerm(y, k)
		switch op {
		case token.ADD:
			return symOf(fpBin("add", a, b), k)
		case token.SUB:
			return symOf(fpBin("sub", a, b), k)
		case token.MUL:
			return symOf(fpBin("mul", a, b), k)
		case token.QUO:
			return symOf(fpBin("div", a, b), k)
		case token.EQL:
			return symOf(fpCmp("eq", a, b), types.Bool)
		case token.NEQ:
			return symOf(tNot(fpCmp("eq", a, b)), types.Bool)
		case token.LSS:
			return symOf(fpCmp("lt", a, b), types.Bool)
		case token.LEQ:
			return symOf(fpCmp("leq", a, b), types.Bool)
		case token.GTR:
			return symOf(fpCmp("gt", a, b), types.Bool)
		case token.GEQ:
			return symOf(fpCmp("geq", a, b), types.Bool)
		}
		panic(infraError{"float binop " + op.String()})
	}
	n, signed := bitsOf(k)
	if n == 0 {
		panic(infraError{fmt.Sprintf("symBinop: unsupported kind %v for %v", k, op)})
	}
	if op == token.SHL || op == token.SHR {
		c := asUint64orInt(y)
		a := toTerm(x, k)
		if op == token.SHL {
			return symOf(bvShift("shl", signed, a, c), k)
		}
		return symOf(bvShift("shr", signed, a, c), k)
	}
	a, b := toTerm(x, k), toTerm(y, k)
	sel := func(sg, us string) string {
		if signed {
			return sg
		}
		return us
	}
	switch op {
	case token.ADD:
		return symOf(bvAdd(a, b), k)
	case token.SUB:
		return symOf(bvSub(a, b), k)
	case token.MUL:
		return symOf(bvMul(a, b), k)
	case token.QUO, token.REM:
		if isSym(y) {
			// division by zero is decided symbolically first
			z := tEq(b, bvConst(n, 0))
			if E.decide(z) {
				panic(targetPanic{runtimeErrorString(theInterp, "integer divide by zero")})
			}
			y = concretise(y.(sym))
			b = toTerm(y, k)
		}
		if b.cval == 0 {
			panic(targetPanic{runtimeErrorString(theInterp, "integer divide by zero")})
		}
		if op == token.QUO {
			return symOf(bvDivRem(sel("bvsdiv", "bvudiv"), a, b), k)
		}
		return symOf(bvDivRem(sel("bvsrem", "bvurem"), a, b), k)
	case token.AND:
		return symOf(bvBit("bvand", a, b), k)
	case token.OR:
		return symOf(bvBit("bvor", a, b), k)
	case token.XOR:
		return symOf(bvBit("bvxor", a, b), k)
	case token.AND_NOT:
		return symOf(bvBit("bvand", a, bvNot(b)), k)
	case token.EQL:
		return symOf(tEq(a, b), types.Bool)
	case token.NEQ:
		return symOf(tNot(tEq(a, b)), types.Bool)
	case token.LSS:
		return symOf(bvCmp(sel("bvslt", "bvult"), a, b), types.Bool)
	case token.LEQ:
		return symOf(bvCmp(sel("bvsle", "bvule"), a, b), types.Bool)
	case token.GTR:
		return symOf(bvCmp(sel("bvsgt", "bvugt"), a, b), types.Bool)
	case token.GEQ:
		return symOf(bvCmp(sel("bvsge", "bvuge"), a, b), types.Bool)
	}
	panic(infraError{"int binop " + op.String()})
}

func asUint64orInt(y value) uint64 {
	if s, ok := y.(sym); ok {
		y = concretise(s)
	}
	switch y.(type) {
	case int, int8, int16, int32, int64:
		v := asInt64(y)
		if v < 0 {
			panic(targetPanic{runtimeErrorString(theInterp, "negative shift amount")})
		}
		return uint64(v)
	}
	return asUint64(y)
}

func symUnop(op token.Token, x sym) value {
	switch op {
	case token.NOT:
		return symOf(tNot(x.t), types.Bool)
	case token.SUB:
		if x.k == types.Float64 {
			return symOf(fpNeg(x.t), x.k)
		}
		return symOf(bvNeg(x.t), x.k)
	case token.XOR:
		return symOf(bvNot(x.t), x.k)
	}
	panic(infraError{"symUnop " + op.String()})
}

func symConv(tDst, tSrc types.Type, x sym) value {
	db, ok := tDst.Underlying().(*types.Basic)
	if !ok {
		panic(infraError{"symConv to " + tDst.String()})
	}
	dk := db.Kind()
	dn, _ := bitsOf(dk)
	sn, ssigned := bitsOf(x.k)
	if dk == types.Bool && x.k == types.Bool {
		return x
	}
	if dn > 0 && sn > 0 {
		switch {
		case dn == sn:
			return sym{x.t, dk}
		case dn < sn:
			return symOf(bvExtractLow(x.t, dn), dk)
		case ssigned:
			return symOf(bvSext(x.t, dn), dk)
		default:
			return symOf(bvZext(x.t, dn), dk)
		}
	}
	if dk == types.Float64 && x.k == types.Float64 {
		return x
	}
	if dk == types.Float64 && sn > 0 {
		if T.real {
			// exact in Real arithmetic only when |x| < 2^53; concretise instead (shape values)
			c := concretise(x)
			if ssigned {
				return float64(asInt64(c))
			}
			return float64(asUint64(c))
		}
		if E.FPConv {
			op := "to_fp_unsigned"
			if ssigned {
				op = "to_fp"
			}
			return symOf(mkOp(T.sF64, 0, "i2f", 0, fmt.Sprintf("((_ %s 11 53) RNE %s)", op, x.t), x.t), types.Float64)
		}
		c := concretise(x)
		if ssigned {
			return float64(asInt64(c))
		}
		return float64(asUint64(c))
	}
	if dn > 0 && x.k == types.Float64 {
		if T.real {
			panic(modelAbort{"float64 -> integer conversion of a symbolic value in real mode"})
		}
		// Go leaves out-of-range conversions implementation-defined: in-range is an obligation.
		lo := fpConst(-math.Ldexp(1, dn-1))
		hi := fpConst(math.Ldexp(1, dn-1))
		inRange := tAnd(fpCmp("geq", x.t, lo), fpCmp("lt", x.t, hi))
		if !E.decide(inRange) {
			panic(modelAbort{"float64 -> integer conversion out of range (implementation-defined in Go)"})
		}
		return symOf(mkOp(bvSort(dn), dn, "f2i", 0, fmt.Sprintf("((_ fp.to_sbv %d) RTZ %s)", dn, x.t), x.t), dk)
	}
	panic(infraError{fmt.Sprintf("symConv %v -> %v", tSrc, tDst)})
}
