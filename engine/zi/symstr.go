package zi

// Symbolic strings: concrete length, each byte concrete (uint8) or sym (DESIGN §3.2).

import (
	"fmt"
	"go/token"
	"go/types"
)

type symstr struct{ b []value }

func isSymStr(v value) bool { _, ok := v.(symstr); return ok }

// mkStr builds a string value from bytes; all-concrete bytes give a plain Go string.
func mkStr(bs []value) value {
	allc := true
	for _, b := range bs {
		if _, ok := b.(sym); ok {
			allc = false
			break
		}
	}
	if allc {
		out := make([]byte, len(bs))
		for i, b := range bs {
			out[i] = b.(byte)
		}
		return string(out)
	}
	return symstr{append([]value(nil), bs...)}
}

func strBytes(v value) []value {
	switch x := v.(type) {
	case string:
		out := make([]value, len(x))
		for i := 0; i < len(x); i++ {
			out[i] = x[i]
		}
		return out
	case symstr:
		return x.b
	}
	panic(infraError{fmt.Sprintf("strBytes: %T", v)})
}

func andValues(a, b value) value {
	if x, ok := a.(bool); ok {
		if !x {
			return false
		}
		return b
	}
	if y, ok := b.(bool); ok {
		if !y {
			return false
		}
		return a
	}
	return symOf(tAnd(a.(sym).t, b.(sym).t), types.Bool)
}

func orValues(a, b value) value {
	if x, ok := a.(bool); ok {
		if x {
			return true
		}
		return b
	}
	if y, ok := b.(bool); ok {
		if y {
			return true
		}
		return a
	}
	return symOf(tOr(a.(sym).t, b.(sym).t), types.Bool)
}

func notValue(a value) value {
	if x, ok := a.(bool); ok {
		return !x
	}
	return symOf(tNot(a.(sym).t), types.Bool)
}

var tByte = types.Typ[types.Uint8]

func bytesEq(a, b []value) value {
	if len(a) != len(b) {
		return false
	}
	var r value = true
	for i := range a {
		r = andValues(r, binop(token.EQL, tByte, a[i], b[i]))
		if x, ok := r.(bool); ok && !x {
			return false
		}
	}
	return r
}

// bytesLess is lexicographic a < b.
func bytesLess(a, b []value) value {
	// less = OR_i (prefix equal up to i) && a[i] < b[i], or a is a proper prefix
	var res value = false
	var pre value = true
	n := len(a)
	if len(b) < n {
		n = len(b)
	}
	for i := 0; i < n; i++ {
		res = orValues(res, andValues(pre, binop(token.LSS, tByte, a[i], b[i])))
		pre = andValues(pre, binop(token.EQL, tByte, a[i], b[i]))
	}
	if len(a) < len(b) {
		res = orValues(res, pre)
	}
	return res
}

func strBinop(op token.Token, x, y value) value {
	a, b := strBytes(x), strBytes(y)
	switch op {
	case token.ADD:
		return mkStr(append(append([]value(nil), a...), b...))
	case token.EQL:
		return bytesEq(a, b)
	case token.NEQ:
		return notValue(bytesEq(a, b))
	case token.LSS:
		return bytesLess(a, b)
	case token.GTR:
		return bytesLess(b, a)
	case token.LEQ:
		return notValue(bytesLess(b, a))
	case token.GEQ:
		return notValue(bytesLess(a, b))
	}
	panic(infraError{"string binop " + op.String()})
}

// symEquals is Go's == on values that may contain symbolic parts.
func symEquals(t types.Type, x, y value) value {
	switch a := x.(type) {
	case sym:
		return symBinop(token.EQL, types.Typ[a.k], x, y)
	case symstr:
		return bytesEq(a.b, strBytes(y))
	case string:
		if _, ok := y.(symstr); ok {
			return bytesEq(strBytes(x), strBytes(y))
		}
	case structure:
		b := y.(structure)
		var r value = true
		for i := range a {
			r = andValues(r, symEquals(nil, a[i], b[i]))
		}
		return r
	case array:
		b := y.(array)
		var r value = true
		for i := range a {
			r = andValues(r, symEquals(nil, a[i], b[i]))
		}
		return r
	case iface:
		b := y.(iface)
		if !sameType(a.t, b.t) {
			return false
		}
		if a.t == nil {
			return true
		}
		return symEquals(a.t, a.v, b.v)
	case stime:
		b := y.(stime)
		if a.zero || b.zero {
			return a.zero == b.zero
		}
		return binop(token.EQL, types.Typ[types.Int64], a.ns, b.ns)
	}
	if ys, ok := y.(sym); ok {
		return symBinop(token.EQL, types.Typ[ys.k], x, y)
	}
	if t == nil {
		// dynamic comparison without static type: only for comparable concrete values
		return equalsDyn(x, y)
	}
	return equals(t, x, y)
}

func equalsDyn(x, y value) value {
	switch a := x.(type) {
	case structure, array, iface:
		return symEquals(nil, x, y)
	case *value:
		return a == y.(*value)
	}
	return x == y
}

type symstrIter struct {
	s symstr
	i int
}

func (it *symstrIter) next() tuple {
	// range over a string decodes UTF-8; with symbolic bytes only ASCII is modelled:
	// the byte is constrained < 0x80 by a fork, otherwise the path leaves the model.
	if it.i >= len(it.s.b) {
		return tuple{false, 0, rune(0)}
	}
	b := it.s.b[it.i]
	idx := it.i
	it.i++
	if sb, ok := b.(sym); ok {
		ascii := bvCmp("bvult", sb.t, bvConst(8, 0x80))
		if !E.decide(ascii) {
			panic(modelAbort{"range over symbolic string: non-ASCII byte"})
		}
		return tuple{true, idx, symOf(bvZext(sb.t, 32), types.Int32)}
	}
	if b.(byte) >= 0x80 {
		panic(modelAbort{"range over symbolic string: non-ASCII byte"})
	}
	return tuple{true, idx, rune(b.(byte))}
}
