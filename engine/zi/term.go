package zi

// Hash-consed SMT terms with local simplification.
//
// Every term that is not a literal is emitted to the solver once, at creation, as
// (define-fun tN () Sort def). The simplifier implements what DESIGN.md §3.2 lists:
// constant folding, byte-lane re-assembly (PutUint64/Uint64 round trips), a linear normal form
// over the ring Z/2^n (so that `base` cancels in until-differences), and the sdiv/srem
// recombination (x/c)*c + x%c -> x used by encoding.TimeFromInt.

import (
	"fmt"
	"math"
	"math/big"
	"sort"
	"strings"
)

type Term struct {
	id    int
	name  string // SMT-LIB spelling: literal, declared constant or tN
	sort  string
	width int // bit-vectors: number of bits; 0 otherwise

	isConst bool
	cval    uint64 // bit-vector / bool constant (bool: 0 or 1)

	op   string // structural tag (see constructors)
	args []*Term
	p    int // integer parameter (shift count, extract index, ...)

	lin   *linForm
	lanes []*Term // for op == "lanes": 8-bit terms, little end first

	vars     []int // ids of the declared constants this term depends on (sorted); see varsOf
	varsDone bool
}

func (t *Term) String() string { return t.name }

type termStore struct {
	tab     map[string]*Term
	seq     int
	defs    []string // every definition/declaration, in order, for (re)playing into solvers
	decls   map[string]*Term
	real    bool // float64 is Real (DESIGN §3.4)
	sF64    string
	inputs  []*Term // declared harness inputs, creation order
	inputOf map[string]bool
}

var T *termStore

func newTermStore(realMode bool) *termStore {
	ts := &termStore{tab: map[string]*Term{}, decls: map[string]*Term{}, real: realMode, sF64: "(_ FloatingPoint 11 53)", inputOf: map[string]bool{}}
	if realMode {
		ts.sF64 = "Real"
		ts.defs = append(ts.defs,
			"(declare-fun f64bits (Real) (_ BitVec 64))",
			"(declare-fun f64frombits ((_ BitVec 64)) Real)",
			"(declare-fun ulog (Real) Real)")
	} else {
		ts.defs = append(ts.defs, "(declare-fun ulog ((_ FloatingPoint 11 53)) (_ FloatingPoint 11 53))")
	}
	return ts
}

func bvSort(n int) string { return fmt.Sprintf("(_ BitVec %d)", n) }

func mask(n int) uint64 {
	if n >= 64 {
		return ^uint64(0)
	}
	return (uint64(1) << uint(n)) - 1
}

func sext(v uint64, n int) int64 {
	if n >= 64 {
		return int64(v)
	}
	sh := uint(64 - n)
	return int64(v<<sh) >> sh
}

// mkDef hash-conses a defined term.
func mkDef(sort string, width int, def string) (*Term, bool) {
	key := sort + "|" + def
	if t := T.tab[key]; t != nil {
		return t, false
	}
	T.seq++
	t := &Term{id: T.seq, name: fmt.Sprintf("t%d", T.seq), sort: sort, width: width}
	T.tab[key] = t
	T.defs = append(T.defs, fmt.Sprintf("(define-fun %s () %s %s)", t.name, sort, def))
	return t, true
}

func mkOp(sort string, width int, op string, p int, def string, args ...*Term) *Term {
	t, fresh := mkDef(sort, width, def)
	if fresh {
		t.op, t.p, t.args = op, p, args
	}
	return t
}

var bvConsts = map[[2]uint64]*Term{}

func bvConst(n int, v uint64) *Term {
	v &= mask(n)
	k := [2]uint64{uint64(n), v}
	if t := bvConsts[k]; t != nil {
		return t
	}
	T.seq++
	t := &Term{id: T.seq, name: fmt.Sprintf("(_ bv%d %d)", v, n), sort: bvSort(n), width: n, isConst: true, cval: v, op: "const"}
	bvConsts[k] = t
	return t
}

var (
	tTrue  = &Term{id: -1, name: "true", sort: "Bool", isConst: true, cval: 1, op: "const"}
	tFalse = &Term{id: -2, name: "false", sort: "Bool", isConst: true, cval: 0, op: "const"}
)

func boolConst(b bool) *Term {
	if b {
		return tTrue
	}
	return tFalse
}

// declare introduces (or returns) a named constant.
func declare(name, sort string, width int) *Term {
	if t := T.decls[name]; t != nil {
		return t
	}
	T.seq++
	t := &Term{id: T.seq, name: name, sort: sort, width: width, op: "var"}
	T.decls[name] = t
	T.defs = append(T.defs, fmt.Sprintf("(declare-const %s %s)", name, sort))
	return t
}

// ---------------------------------------------------------------- booleans

func tNot(a *Term) *Term {
	if a.isConst {
		return boolConst(a.cval == 0)
	}
	if a.op == "not" {
		return a.args[0]
	}
	return mkOp("Bool", 0, "not", 0, fmt.Sprintf("(not %s)", a), a)
}

func tAnd(a, b *Term) *Term {
	if a.isConst {
		if a.cval == 0 {
			return tFalse
		}
		return b
	}
	if b.isConst {
		if b.cval == 0 {
			return tFalse
		}
		return a
	}
	if a == b {
		return a
	}
	return mkOp("Bool", 0, "and", 0, fmt.Sprintf("(and %s %s)", a, b), a, b)
}

func tOr(a, b *Term) *Term {
	if a.isConst {
		if a.cval == 1 {
			return tTrue
		}
		return b
	}
	if b.isConst {
		if b.cval == 1 {
			return tTrue
		}
		return a
	}
	if a == b {
		return a
	}
	return mkOp("Bool", 0, "or", 0, fmt.Sprintf("(or %s %s)", a, b), a, b)
}

func tEq(a, b *Term) *Term {
	if a == b {
		if a.sort == T.sF64 && !T.real {
			// structural equality of FP terms; callers use fpEq for Go's ==
		}
		return tTrue
	}
	if a.isConst && b.isConst {
		return boolConst(a.cval == b.cval)
	}
	if a.id > b.id {
		a, b = b, a
	}
	if a.width > 0 {
		// linear: a == b  <=>  a-b == 0 (always, modulo 2^n); if a-b is a constant the answer is
		// known, and if the difference drops shared atoms the simpler equation is emitted
		d := bvSub(a, b)
		if d.isConst {
			return boolConst(d.cval == 0)
		}
		if d.lin != nil && len(d.lin.atoms) < len(linOf(a).atoms)+len(linOf(b).atoms) && d != a && d != b {
			z := bvConst(a.width, 0)
			return mkOp("Bool", 0, "=", 0, fmt.Sprintf("(= %s %s)", z, d), z, d)
		}
	}
	return mkOp("Bool", 0, "=", 0, fmt.Sprintf("(= %s %s)", a, b), a, b)
}

func tIte(c, a, b *Term) *Term {
	if c.isConst {
		if c.cval == 1 {
			return a
		}
		return b
	}
	if a == b {
		return a
	}
	return mkOp(a.sort, a.width, "ite", 0, fmt.Sprintf("(ite %s %s %s)", c, a, b), c, a, b)
}

// ---------------------------------------------------------------- linear forms

type linAtom struct {
	t *Term
	k uint64
}

type linForm struct {
	n     int
	c     uint64
	atoms []linAtom // sorted by t.id, k != 0
}

func linOf(t *Term) *linForm {
	if t.lin != nil {
		return t.lin
	}
	if t.isConst {
		return &linForm{n: t.width, c: t.cval}
	}
	return &linForm{n: t.width, atoms: []linAtom{{t, 1}}}
}

func linCombine(a *linForm, ka uint64, b *linForm, kb uint64) *linForm {
	n := a.n
	m := map[*Term]uint64{}
	for _, x := range a.atoms {
		m[x.t] += x.k * ka
	}
	if b != nil {
		for _, x := range b.atoms {
			m[x.t] += x.k * kb
		}
	}
	r := &linForm{n: n, c: a.c * ka}
	if b != nil {
		r.c += b.c * kb
	}
	r.c &= mask(n)
	for t, k := range m {
		k &= mask(n)
		if k != 0 {
			r.atoms = append(r.atoms, linAtom{t, k})
		}
	}
	sort.Slice(r.atoms, func(i, j int) bool { return r.atoms[i].t.id < r.atoms[j].t.id })
	// (x sdiv c)*c + (x srem c) -> x  (also udiv/urem), any common multiplier m
	for changed := true; changed; {
		changed = false
		for i, d := range r.atoms {
			if (d.t.op != "bvsdiv" && d.t.op != "bvudiv") || !d.t.args[1].isConst {
				continue
			}
			remOp := "bvsrem"
			if d.t.op == "bvudiv" {
				remOp = "bvurem"
			}
			cv := d.t.args[1].cval
			for j, q := range r.atoms {
				if q.t.op == remOp && q.t.args[0] == d.t.args[0] && q.t.args[1] == d.t.args[1] && d.k == (q.k*cv)&mask(n) {
					x := linOf(d.t.args[0])
					rest := &linForm{n: n, c: r.c}
					for l, a := range r.atoms {
						if l != i && l != j {
							rest.atoms = append(rest.atoms, a)
						}
					}
					r = linCombine(rest, 1, x, q.k)
					changed = true
					break
				}
			}
			if changed {
				break
			}
		}
	}
	return r
}

func fromLin(l *linForm) *Term {
	if len(l.atoms) == 0 {
		return bvConst(l.n, l.c)
	}
	if len(l.atoms) == 1 && l.atoms[0].k == 1 && l.c == 0 {
		return l.atoms[0].t
	}
	var parts []string
	for _, a := range l.atoms {
		if a.k == 1 {
			parts = append(parts, a.t.name)
		} else if a.k == mask(l.n) {
			parts = append(parts, fmt.Sprintf("(bvneg %s)", a.t))
		} else {
			parts = append(parts, fmt.Sprintf("(bvmul %s %s)", bvConst(l.n, a.k), a.t))
		}
	}
	if l.c != 0 {
		parts = append(parts, bvConst(l.n, l.c).name)
	}
	def := parts[0]
	if len(parts) > 1 {
		def = "(bvadd " + strings.Join(parts, " ") + ")"
	}
	t, fresh := mkDef(bvSort(l.n), l.n, def)
	if fresh {
		t.op = "lin"
		t.lin = l
	}
	return t
}

func bvAdd(a, b *Term) *Term { return fromLin(linCombine(linOf(a), 1, linOf(b), 1)) }
func bvSub(a, b *Term) *Term { return fromLin(linCombine(linOf(a), 1, linOf(b), mask(a.width))) }
func bvNeg(a *Term) *Term    { return fromLin(linCombine(linOf(a), mask(a.width), nil, 0)) }

func bvMul(a, b *Term) *Term {
	if a.isConst {
		return fromLin(linCombine(linOf(b), a.cval, nil, 0))
	}
	if b.isConst {
		return fromLin(linCombine(linOf(a), b.cval, nil, 0))
	}
	if a.id > b.id {
		a, b = b, a
	}
	return mkOp(a.sort, a.width, "bvmul", 0, fmt.Sprintf("(bvmul %s %s)", a, b), a, b)
}

// ---------------------------------------------------------------- lanes

func extract8(x *Term, i int) *Term {
	if x.isConst {
		return bvConst(8, x.cval>>(8*uint(i)))
	}
	if x.op == "lanes" {
		return x.lanes[i]
	}
	if x.width == 8 && i == 0 {
		return x
	}
	if laneish(x) {
		return lanesOf(x)[i]
	}
	return mkOp(bvSort(8), 8, "extract8", i, fmt.Sprintf("((_ extract %d %d) %s)", 8*i+7, 8*i, x), x)
}

func laneish(t *Term) bool {
	switch t.op {
	case "const", "lanes", "zext":
		return true
	case "shl8", "lshr8":
		return true
	}
	return false
}

func lanesOf(t *Term) []*Term {
	nl := t.width / 8
	ls := make([]*Term, nl)
	z := bvConst(8, 0)
	switch {
	case t.isConst:
		for i := range ls {
			ls[i] = bvConst(8, t.cval>>(8*uint(i)))
		}
	case t.op == "lanes":
		copy(ls, t.lanes)
	case t.op == "zext":
		in := t.args[0]
		for i := range ls {
			if i < in.width/8 {
				ls[i] = extract8(in, i)
			} else {
				ls[i] = z
			}
		}
	case t.op == "shl8":
		in := lanesOf(t.args[0])
		for i := range ls {
			if i-t.p >= 0 {
				ls[i] = in[i-t.p]
			} else {
				ls[i] = z
			}
		}
	case t.op == "lshr8":
		in := lanesOf(t.args[0])
		for i := range ls {
			if i+t.p < nl {
				ls[i] = in[i+t.p]
			} else {
				ls[i] = z
			}
		}
	default:
		for i := range ls {
			ls[i] = extract8(t, i)
		}
	}
	return ls
}

func fromLanes(ls []*Term) *Term {
	n := len(ls) * 8
	if n == 8 {
		return ls[0]
	}
	allConst := true
	var v uint64
	for i, l := range ls {
		if !l.isConst {
			allConst = false
			break
		}
		v |= l.cval << (8 * uint(i))
	}
	if allConst {
		return bvConst(n, v)
	}
	if ls[0].op == "extract8" && ls[0].p == 0 && ls[0].args[0].width == n {
		x := ls[0].args[0]
		same := true
		for i, l := range ls {
			if l.op != "extract8" || l.p != i || l.args[0] != x {
				same = false
				break
			}
		}
		if same {
			return x
		}
	}
	names := make([]string, len(ls))
	for i, l := range ls {
		names[len(ls)-1-i] = l.name
	}
	t, fresh := mkDef(bvSort(n), n, "(concat "+strings.Join(names, " ")+")")
	if fresh {
		t.op = "lanes"
		t.lanes = append([]*Term(nil), ls...)
	}
	return t
}

// ---------------------------------------------------------------- bit-vector ops

func bvZext(a *Term, to int) *Term {
	if a.width == to {
		return a
	}
	if a.isConst {
		return bvConst(to, a.cval)
	}
	t := mkOp(bvSort(to), to, "zext", 0, fmt.Sprintf("((_ zero_extend %d) %s)", to-a.width, a), a)
	return t
}

func bvSext(a *Term, to int) *Term {
	if a.width == to {
		return a
	}
	if a.isConst {
		return bvConst(to, uint64(sext(a.cval, a.width)))
	}
	return mkOp(bvSort(to), to, "sext", 0, fmt.Sprintf("((_ sign_extend %d) %s)", to-a.width, a), a)
}

func bvExtractLow(a *Term, to int) *Term {
	if a.width == to {
		return a
	}
	if a.isConst {
		return bvConst(to, a.cval)
	}
	if to == 8 {
		return extract8(a, 0)
	}
	if to%8 == 0 && a.width%8 == 0 && (laneish(a) || a.op == "lanes") {
		return fromLanes(lanesOf(a)[:to/8])
	}
	if a.op == "zext" && a.args[0].width == to {
		return a.args[0]
	}
	if a.op == "sext" && a.args[0].width == to {
		return a.args[0]
	}
	return mkOp(bvSort(to), to, "extract", to, fmt.Sprintf("((_ extract %d 0) %s)", to-1, a), a)
}

func bvShift(op string, signed bool, a *Term, c uint64) *Term {
	n := a.width
	if c == 0 {
		return a
	}
	if c >= uint64(n) {
		if op == "shr" && signed {
			c = uint64(n - 1)
		} else {
			return bvConst(n, 0)
		}
	}
	if a.isConst {
		switch {
		case op == "shl":
			return bvConst(n, a.cval<<c)
		case signed:
			return bvConst(n, uint64(sext(a.cval, n)>>c))
		default:
			return bvConst(n, (a.cval&mask(n))>>c)
		}
	}
	if op == "shl" {
		if c%8 == 0 && n%8 == 0 && n > 8 {
			return mkOp(a.sort, n, "shl8", int(c/8), fmt.Sprintf("(bvshl %s %s)", a, bvConst(n, c)), a)
		}
		return fromLin(linCombine(linOf(a), uint64(1)<<c, nil, 0))
	}
	if signed {
		return mkOp(a.sort, n, "bvashr", int(c), fmt.Sprintf("(bvashr %s %s)", a, bvConst(n, c)), a)
	}
	if c%8 == 0 && n%8 == 0 && n > 8 {
		return mkOp(a.sort, n, "lshr8", int(c/8), fmt.Sprintf("(bvlshr %s %s)", a, bvConst(n, c)), a)
	}
	return mkOp(a.sort, n, "bvlshr", int(c), fmt.Sprintf("(bvlshr %s %s)", a, bvConst(n, c)), a)
}

func bvBit(op string, a, b *Term) *Term {
	n := a.width
	if a.isConst && b.isConst {
		switch op {
		case "bvand":
			return bvConst(n, a.cval&b.cval)
		case "bvor":
			return bvConst(n, a.cval|b.cval)
		case "bvxor":
			return bvConst(n, a.cval^b.cval)
		}
	}
	if a.isConst {
		a, b = b, a
	}
	if b.isConst {
		switch {
		case op == "bvand" && b.cval == 0:
			return b
		case op == "bvand" && b.cval == mask(n):
			return a
		case (op == "bvor" || op == "bvxor") && b.cval == 0:
			return a
		case op == "bvor" && b.cval == mask(n):
			return b
		}
	}
	if a == b {
		switch op {
		case "bvand", "bvor":
			return a
		case "bvxor":
			return bvConst(n, 0)
		}
	}
	if n > 8 && n%8 == 0 && (op == "bvor" || op == "bvand") && laneish(a) && laneish(b) {
		la, lb := lanesOf(a), lanesOf(b)
		out := make([]*Term, len(la))
		for i := range la {
			out[i] = bvBit(op, la[i], lb[i])
		}
		return fromLanes(out)
	}
	if a.id > b.id {
		a, b = b, a
	}
	return mkOp(a.sort, n, op, 0, fmt.Sprintf("(%s %s %s)", op, a, b), a, b)
}

func bvNot(a *Term) *Term {
	if a.isConst {
		return bvConst(a.width, ^a.cval)
	}
	return mkOp(a.sort, a.width, "bvnot", 0, fmt.Sprintf("(bvnot %s)", a), a)
}

// bvDivRem: b must be a non-zero constant term (callers concretise the divisor).
func bvDivRem(op string, a, b *Term) *Term {
	n := a.width
	if a.isConst && b.isConst {
		switch op {
		case "bvsdiv":
			x, y := sext(a.cval, n), sext(b.cval, n)
			if y == -1 {
				return bvConst(n, uint64(-x))
			}
			return bvConst(n, uint64(x/y))
		case "bvsrem":
			x, y := sext(a.cval, n), sext(b.cval, n)
			if y == -1 {
				return bvConst(n, 0)
			}
			return bvConst(n, uint64(x%y))
		case "bvudiv":
			return bvConst(n, a.cval/b.cval)
		case "bvurem":
			return bvConst(n, a.cval%b.cval)
		}
	}
	if b.isConst && b.cval == 1 {
		if op == "bvsdiv" || op == "bvudiv" {
			return a
		}
		return bvConst(n, 0)
	}
	// grid rewrite (see gridFacts): (G + rest) srem d with G ≡ 0 (mod d) on the year-1 grid
	if r := gridRem(op, a, b); r != nil {
		return r
	}
	if r := rangeDivRem(op, a, b); r != nil {
		return r
	}
	return mkOp(a.sort, n, op, 0, fmt.Sprintf("(%s %s %s)", op, a, b), a, b)
}

func bvCmp(op string, a, b *Term) *Term {
	n := a.width
	if a.isConst && b.isConst {
		x, y := a.cval, b.cval
		sx, sy := sext(x, n), sext(y, n)
		var r bool
		switch op {
		case "bvslt":
			r = sx < sy
		case "bvsle":
			r = sx <= sy
		case "bvsgt":
			r = sx > sy
		case "bvsge":
			r = sx >= sy
		case "bvult":
			r = x < y
		case "bvule":
			r = x <= y
		case "bvugt":
			r = x > y
		case "bvuge":
			r = x >= y
		}
		return boolConst(r)
	}
	if a == b {
		switch op {
		case "bvsle", "bvsge", "bvule", "bvuge":
			return tTrue
		default:
			return tFalse
		}
	}
	// canonicalise > and >= into < and <= with swapped operands (more hash-consing hits)
	switch op {
	case "bvsgt":
		op, a, b = "bvslt", b, a
	case "bvsge":
		op, a, b = "bvsle", b, a
	case "bvugt":
		op, a, b = "bvult", b, a
	case "bvuge":
		op, a, b = "bvule", b, a
	}
	// a <= b  ==  not (b < a)
	switch op {
	case "bvsle":
		return tNot(bvCmp("bvslt", b, a))
	case "bvule":
		return tNot(bvCmp("bvult", b, a))
	}
	if r := rangeCmp(op, a, b); r != nil {
		return r
	}
	return mkOp("Bool", 0, op, 0, fmt.Sprintf("(%s %s %s)", op, a, b), a, b)
}

// ---------------------------------------------------------------- floats

func fpConst(x float64) *Term {
	if T.real {
		if math.IsNaN(x) || math.IsInf(x, 0) {
			panic(modelAbort{"non-finite float constant in real mode"})
		}
		r := new(big.Rat).SetFloat64(x)
		neg := r.Sign() < 0
		if neg {
			r.Neg(r)
		}
		l := fmt.Sprintf("(/ %s.0 %s.0)", r.Num().String(), r.Denom().String())
		if neg {
			l = "(- " + l + ")"
		}
		t, fresh := mkDef("Real", 0, l)
		if fresh {
			t.op = "fconst"
			t.isConst = true
			t.cval = math.Float64bits(x)
		}
		return t
	}
	t, fresh := mkDef(T.sF64, 0, fmt.Sprintf("((_ to_fp 11 53) #x%016x)", math.Float64bits(x)))
	if fresh {
		t.op = "fconst"
		t.isConst = true
		t.cval = math.Float64bits(x)
	}
	return t
}

func fpConstVal(t *Term) (float64, bool) {
	if t.op == "fconst" {
		return math.Float64frombits(t.cval), true
	}
	return 0, false
}

func fpBin(op string, a, b *Term) *Term {
	if x, ok := fpConstVal(a); ok {
		if y, ok := fpConstVal(b); ok {
			var r float64
			switch op {
			case "add":
				r = x + y
			case "sub":
				r = x - y
			case "mul":
				r = x * y
			case "div":
				r = x / y
			}
			if !T.real || !(math.IsNaN(r) || math.IsInf(r, 0)) {
				if !T.real {
					return fpConst(r)
				}
			}
		}
	}
	if T.real {
		o := map[string]string{"add": "+", "sub": "-", "mul": "*", "div": "/"}[op]
		if op == "add" || op == "mul" {
			if a.id > b.id {
				a, b = b, a
			}
		}
		return mkOp("Real", 0, "f"+op, 0, fmt.Sprintf("(%s %s %s)", o, a, b), a, b)
	}
	if op == "add" || op == "mul" {
		if a.id > b.id {
			a, b = b, a // IEEE add/mul are commutative (NaN payloads are not observable here)
		}
	}
	return mkOp(T.sF64, 0, "f"+op, 0, fmt.Sprintf("(fp.%s RNE %s %s)", op, a, b), a, b)
}

func fpNeg(a *Term) *Term {
	if x, ok := fpConstVal(a); ok && !T.real {
		return fpConst(-x)
	}
	if T.real {
		return mkOp("Real", 0, "fneg", 0, fmt.Sprintf("(- %s)", a), a)
	}
	return mkOp(T.sF64, 0, "fneg", 0, fmt.Sprintf("(fp.neg %s)", a), a)
}

// fpCmp implements Go's float comparisons (NaN compares false except !=).
func fpCmp(op string, a, b *Term) *Term {
	if x, ok := fpConstVal(a); ok {
		if y, ok := fpConstVal(b); ok {
			var r bool
			switch op {
			case "eq":
				r = x == y
			case "lt":
				r = x < y
			case "leq":
				r = x <= y
			case "gt":
				r = x > y
			case "geq":
				r = x >= y
			}
			return boolConst(r)
		}
	}
	switch op {
	case "gt":
		op, a, b = "lt", b, a
	case "geq":
		op, a, b = "leq", b, a
	}
	if T.real {
		if a == b {
			return boolConst(op != "lt")
		}
		o := map[string]string{"eq": "=", "lt": "<", "leq": "<="}[op]
		if op == "eq" && a.id > b.id {
			a, b = b, a
		}
		return mkOp("Bool", 0, "f"+op, 0, fmt.Sprintf("(%s %s %s)", o, a, b), a, b)
	}
	if op == "eq" && a.id > b.id {
		a, b = b, a
	}
	return mkOp("Bool", 0, "f"+op, 0, fmt.Sprintf("(fp.%s %s %s)", op, a, b), a, b)
}

func fpIsNaN(a *Term) *Term {
	if x, ok := fpConstVal(a); ok {
		return boolConst(math.IsNaN(x))
	}
	if T.real {
		return tFalse
	}
	return mkOp("Bool", 0, "fisnan", 0, fmt.Sprintf("(fp.isNaN %s)", a), a)
}

func fpIsInf(a *Term) *Term {
	if x, ok := fpConstVal(a); ok {
		return boolConst(math.IsInf(x, 0))
	}
	if T.real {
		return tFalse
	}
	return mkOp("Bool", 0, "fisinf", 0, fmt.Sprintf("(fp.isInfinite %s)", a), a)
}

// fpFromBits is math.Float64frombits.
func fpFromBits(b *Term) *Term {
	if b.isConst {
		return fpConst(math.Float64frombits(b.cval))
	}
	if b.op == "f64bits" {
		return b.args[0]
	}
	if T.real {
		return mkOp("Real", 0, "frombits", 0, fmt.Sprintf("(f64frombits %s)", b), b)
	}
	return mkOp(T.sF64, 0, "frombits", 0, fmt.Sprintf("((_ to_fp 11 53) %s)", b), b)
}

// fpToBits is math.Float64bits. In fp mode the result is a declared constant tied to v by the
// side condition to_fp(bits) = v (returned as side, to be added to the path condition once).
func fpToBits(v *Term) (bits *Term, side *Term) {
	if x, ok := fpConstVal(v); ok {
		return bvConst(64, math.Float64bits(x)), nil
	}
	if v.op == "frombits" {
		return v.args[0], nil
	}
	if T.real {
		b := mkOp(bvSort(64), 64, "f64bits", 0, fmt.Sprintf("(f64bits %s)", v), v)
		s := mkOp("Bool", 0, "bitsax", 0, fmt.Sprintf("(= (f64frombits %s) %s)", b, v), b, v)
		return b, s
	}
	name := "fb!" + v.name
	b := declare(name, bvSort(64), 64)
	b.op = "f64bits"
	b.args = []*Term{v}
	s := mkOp("Bool", 0, "bitsax", 0, fmt.Sprintf("(= ((_ to_fp 11 53) %s) %s)", b, v), b, v)
	return b, s
}

// varsOf returns the sorted ids of the declared constants t depends on (cached).
func varsOf(t *Term) []int {
	if t.varsDone {
		return t.vars
	}
	t.varsDone = true
	if t.isConst {
		return nil
	}
	set := map[int]bool{}
	add := func(x *Term) {
		for _, v := range varsOf(x) {
			set[v] = true
		}
	}
	switch {
	case t.op == "var":
		set[t.id] = true
	case t.op == "f64bits" && len(t.args) == 1 && T.decls[t.name] == t:
		// the bits constant of a float term (fp mode): a variable of its own, tied to its float by
		// a side constraint that is part of the path condition
		set[t.id] = true
		add(t.args[0])
	case t.op == "lin" && t.lin != nil:
		for _, a := range t.lin.atoms {
			add(a.t)
		}
	case t.op == "lanes":
		for _, l := range t.lanes {
			add(l)
		}
	default:
		for _, a := range t.args {
			add(a)
		}
	}
	out := make([]int, 0, len(set))
	for v := range set {
		out = append(out, v)
	}
	sort.Ints(out)
	t.vars = out
	return out
}
