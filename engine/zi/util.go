package zi

import "go/types"

func mustDeref(t types.Type) types.Type {
	if p, ok := t.Underlying().(*types.Pointer); ok {
		return p.Elem()
	}
	panic("mustDeref: not a pointer: " + t.String())
}
