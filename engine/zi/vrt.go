package zi

// The vrt* harness API, intercepted by function name (DESIGN §4). Natively the same functions
// are implemented by harness/vrt_native.go.tmpl and read a replay vector.

import (
	"fmt"
	"go/token"
	"go/types"
	"math"
	"strconv"
	"strings"

	"golang.org/x/tools/go/ssa"
)

func replayBits(prefix string) (uint64, bool) {
	v, ok := E.replayVal(prefix)
	if !ok {
		return 0, false
	}
	v = strings.TrimPrefix(v, "f:")
	if v == "true" {
		return 1, true
	}
	if v == "false" {
		return 0, true
	}
	u, err := strconv.ParseUint(v, 16, 64)
	if err != nil {
		return 0, true
	}
	return u, true
}

func symInt(prefix string, k types.BasicKind) value {
	n, _ := bitsOf(k)
	if u, ok := replayBits(prefix); ok {
		return concreteOf(k, u)
	}
	return sym{E.input(prefix, bvSort(n), n, "bv"), k}
}

func str(v value) string {
	if s, ok := v.(string); ok {
		return s
	}
	return "<symstr>"
}

func vrtExternal(fn *ssa.Function, name string) externalFn {
	i := strings.LastIndex(name, ".")
	short := name[i+1:]
	if !strings.HasPrefix(short, "vrt") {
		return nil
	}
	switch short {
	case "vrtInt64":
		return func(fr *frame, args []value) value { return symInt("i64_"+str(args[0]), types.Int64) }
	case "vrtInt":
		return func(fr *frame, args []value) value { return symInt("int_"+str(args[0]), types.Int) }
	case "vrtUint64":
		return func(fr *frame, args []value) value { return symInt("u64_"+str(args[0]), types.Uint64) }
	case "vrtInt32":
		return func(fr *frame, args []value) value { return symInt("i32_"+str(args[0]), types.Int32) }
	case "vrtByte":
		return func(fr *frame, args []value) value { return symInt("b_"+str(args[0]), types.Uint8) }
	case "vrtBool":
		return func(fr *frame, args []value) value {
			p := "bool_" + str(args[0])
			if u, ok := replayBits(p); ok {
				return u != 0
			}
			return sym{E.input(p, "Bool", 0, "bool"), types.Bool}
		}
	case "vrtFloat64":
		return func(fr *frame, args []value) value {
			p := "f_" + str(args[0])
			if u, ok := replayBits(p); ok {
				return math.Float64frombits(u)
			}
			if T.real {
				return sym{E.input(p, "Real", 0, "real"), types.Float64}
			}
			b := E.input(p, bvSort(64), 64, "bv")
			return symOf(fpFromBits(b), types.Float64)
		}
	case "vrtBytes":
		return func(fr *frame, args []value) value {
			n := int(asInt64(args[1]))
			out := make([]value, n)
			for j := range out {
				out[j] = symInt("b_"+str(args[0])+"_"+strconv.Itoa(j), types.Uint8)
			}
			return out
		}
	case "vrtString":
		return func(fr *frame, args []value) value {
			n := int(asInt64(args[1]))
			out := make([]value, n)
			for j := range out {
				out[j] = symInt("b_"+str(args[0])+"_"+strconv.Itoa(j), types.Uint8)
			}
			return mkStr(out)
		}
	case "vrtRange":
		// vrtRange(name, lo, hi int64) int64: symbolic, lo <= x <= hi, with a range fact
		return func(fr *frame, args []value) value {
			lo, hi := asInt64(args[1]), asInt64(args[2])
			p := fmt.Sprintf("r_%s_%d_%d", str(args[0]), lo, hi)
			if lo == hi {
				E.nameSeq[p]++
				return lo
			}
			if u, ok := replayBits(p); ok {
				return int64(u)
			}
			t := E.input(p, bvSort(64), 64, "bv")
			facts[t] = &fact{hasRange: true, lo: lo, hi: hi}
			assertRange(t, lo, hi)
			return sym{t, types.Int64}
		}
	case "vrtShape":
		// vrtShape(name, n) int in [0,n): concretised at once (one path per value); shardable
		return func(fr *frame, args []value) value {
			n := int(asInt64(args[1]))
			nm := str(args[0])
			p := "shape_" + nm
			if u, ok := replayBits(p); ok {
				return int(u)
			}
			if n <= 0 {
				panic(pathInfeasible{})
			}
			t := E.input(p, bvSort(64), 64, "bv")
			if v, ok := E.Presets[nm]; ok {
				if v >= n {
					panic(pathInfeasible{})
				}
				E.addPC(tEq(t, bvConst(64, uint64(v))))
				return v
			}
			if n == 1 {
				E.addPC(tEq(t, bvConst(64, 0)))
				return 0
			}
			E.addPC(bvCmp("bvult", t, bvConst(64, uint64(n))))
			save := E.MaxConc
			if n > E.MaxConc {
				E.MaxConc = n
			}
			v := concretise(sym{t, types.Int})
			E.MaxConc = save
			return v
		}
	case "vrtGridTime":
		// vrtGridTime(name, res time.Duration) time.Time: any instant G in [2^40,2^62) ns that
		// time.Time.Round(res) leaves unchanged, i.e. G = res·m − off(res) for an integer m
		// (Go rounds relative to year 1; off(res) = 62135596800·10^9 mod res)
		return func(fr *frame, args []value) value {
			d := asInt64(args[1])
			off := gridOff(d)
			p := fmt.Sprintf("gridm_%s_%d", str(args[0]), d)
			if u, ok := replayBits(p); ok {
				return mkTime(int64(u)*d - off)
			}
			mlo := (timeLo+off)/d + 1
			mhi := (timeHi+off)/d - 1
			m := E.input(p, bvSort(64), 64, "bv")
			facts[m] = &fact{hasRange: true, lo: mlo, hi: mhi}
			assertRange(m, mlo, mhi)
			g := bvSub(bvMul(m, bvConst(64, uint64(d))), bvConst(64, uint64(off)))
			return stime{ns: sym{g, types.Int64}}
		}
	case "vrtTime":
		// vrtTime(name) time.Time: any instant in [2^40, 2^62) ns
		return func(fr *frame, args []value) value {
			p := "time_" + str(args[0])
			if u, ok := replayBits(p); ok {
				return mkTime(int64(u))
			}
			t := E.input(p, bvSort(64), 64, "bv")
			facts[t] = &fact{hasRange: true, lo: timeLo, hi: timeHi - 1}
			assertRange(t, timeLo, timeHi-1)
			return stime{ns: sym{t, types.Int64}}
		}
	case "vrtAssume":
		return func(fr *frame, args []value) value { E.assume(args[0]); return nil }
	case "vrtAssert":
		return func(fr *frame, args []value) value { E.assert(args[0], str(args[1])); return nil }
	case "vrtFloatEq":
		// equality of reported values: exact on reals (real mode); in fp mode IEEE == or both NaN
		return func(fr *frame, args []value) value {
			a, b := args[0], args[1]
			if !isSym(a) && !isSym(b) {
				x, y := a.(float64), b.(float64)
				return x == y || (x != x && y != y)
			}
			ta, tb := toTerm(a, types.Float64), toTerm(b, types.Float64)
			if T.real {
				return symOf(fpCmp("eq", ta, tb), types.Bool)
			}
			return symOf(tOr(fpCmp("eq", ta, tb), tAnd(fpIsNaN(ta), fpIsNaN(tb))), types.Bool)
		}
	case "vrtAnd":
		return func(fr *frame, args []value) value { return andValues(args[0], args[1]) }
	case "vrtOr":
		return func(fr *frame, args []value) value { return orValues(args[0], args[1]) }
	case "vrtImplies":
		return func(fr *frame, args []value) value { return orValues(notValue(args[0]), args[1]) }
	case "vrtFinite":
		return func(fr *frame, args []value) value {
			a := args[0]
			if !isSym(a) {
				x := a.(float64)
				return !math.IsNaN(x) && !math.IsInf(x, 0)
			}
			if T.real {
				return true
			}
			t := a.(sym).t
			return symOf(tAnd(tNot(fpIsNaN(t)), tNot(fpIsInf(t))), types.Bool)
		}
	case "vrtReach":
		return func(fr *frame, args []value) value {
			id := str(args[0])
			E.reached[id] = true
			if _, ok := E.ReachModels[id]; !ok && E.Replay == nil {
				if m, order, ok := E.model(nil); ok {
					E.ReachModels[id] = Violation{Harness: E.Harness, Msg: "reach " + id, Kind: "reach", Model: m, Order: order}
				}
			} else if E.Replay == nil && (E.Paths == 5 || E.Paths == 40) {
				// further path samples: the engine proved every assertion on this path for all
				// values of the path condition, so the model must pass natively as well
				// (differential check of the interpreter against the compiled code)
				key := fmt.Sprintf("%s#p%d", id, E.Paths)
				if _, ok := E.ReachModels[key]; !ok {
					if m, order, ok := E.model(nil); ok {
						E.ReachModels[key] = Violation{Harness: E.Harness, Msg: "reach " + id, Kind: "reach", Model: m, Order: order}
					}
				}
			}
			return nil
		}
	case "vrtFreeze":
		return func(fr *frame, args []value) value {
			freezeValue(args[1], str(args[0]), map[*value]bool{})
			return nil
		}
	case "vrtUnfreeze":
		return func(fr *frame, args []value) value { unfreezeAll(); return nil }
	case "vrtCrash":
		return func(fr *frame, args []value) value { panic(crashPanic{}) }
	case "vrtCatchCrash":
		// vrtCatchCrash(f) runs f and reports whether it died in vrtCrash()
		return func(fr *frame, args []value) (res value) {
			res = false
			defer func() {
				if r := recover(); r != nil {
					if _, ok := r.(crashPanic); ok {
						res = true
						return
					}
					panic(r)
				}
			}()
			call(fr.i, fr, token.NoPos, args[0], nil)
			return
		}
	case "vrtParam":
		// vrtParam(name, default) int: per-tier harness parameter from the directive
		return func(fr *frame, args []value) value {
			if v, ok := E.Params[str(args[0])]; ok {
				return v
			}
			return int(asInt64(args[1]))
		}
	case "vrtSymbolic":
		return func(fr *frame, args []value) value { return E.Replay == nil }
	case "vrtRealMode":
		return func(fr *frame, args []value) value { return T.real }
	case "vrtIsConcrete":
		return func(fr *frame, args []value) value { return !hasSym(args[0]) }
	case "vrtObserve":
		return func(fr *frame, args []value) value {
			E.observed = append(E.observed, str(args[0])+"="+fmt.Sprint(native(fr, args[1])))
			return nil
		}
	case "vrtRunPending":
		// run every recorded goroutine to completion or to its first blocking operation
		return func(fr *frame, args []value) value { runPending(fr.i); return nil }
	}
	panic(infraError{"unknown vrt intrinsic " + short})
}

var _ = token.ADD

// assertRange puts lo <= t <= hi into the path condition with the plain operators (the
// fact-based simplifier must not be used here: it would decide the assertion from the fact).
func assertRange(t *Term, lo, hi int64) {
	l, h := bvConst(64, uint64(lo)), bvConst(64, uint64(hi))
	E.addPC(mkOp("Bool", 0, "rawsle", 0, fmt.Sprintf("(bvsle %s %s)", l, t), l, t))
	E.addPC(mkOp("Bool", 0, "rawsle", 0, fmt.Sprintf("(bvsle %s %s)", t, h), t, h))
}
