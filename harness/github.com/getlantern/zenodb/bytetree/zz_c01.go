package bytetree

// C01.B / C04.C / C18.A — the radix tree that backs the memstore (DESIGN §5).

import (
	"strconv"
	"time"

	"github.com/getlantern/bytemap"
	"github.com/getlantern/zenodb/encoding"
	"github.com/getlantern/zenodb/expr"
)

func zxItoa(i int) string { return strconv.Itoa(i) }

var zxRes = time.Second

func zxBase() time.Time { return vrtGridTime("base", zxRes) }

// zxKey: a key of 0..maxLen symbolic bytes (length is a shape; the empty key is what a point
// without any of the GROUP BY dimensions gets).
func zxKey(name string, maxLen int) []byte {
	n := vrtShape("len"+name, maxLen+1)
	if n == 0 {
		return []byte{}
	}
	return vrtBytes(name, n)
}

func zxParams(ts time.Time, v float64) encoding.TSParams {
	return encoding.NewTSParams(ts, bytemap.NewFloat(map[string]float64{"a": v}))
}

func zxSameKey(a, b []byte) bool {
	if len(a) != len(b) {
		return false
	}
	ok := true
	for i := range a {
		ok = vrtAnd(ok, a[i] == b[i])
	}
	return ok
}

// C01.B — after K updates with arbitrary keys (any prefix / equal / diverging relation between
// them, the empty key included), walking the tree visits exactly one node per distinct key, under
// that key, holding the fold of exactly that key's updates; Length() is the number of distinct
// keys; and Remove (how a flush and a query pair a file row with its memstore row) finds every
// inserted key exactly once, returns that key's data, and finds no key that was not inserted.
//
//zx:harness prop=C01+C03 id=C01.B tier=quick K=3 L=3 shard=lenk0:4,lenk1:4 thorough.K=4 thorough.L=3 thorough.shard=lenk0:4,lenk1:4,lenk2:4
func zxC01Tree() {
	K := vrtParam("K", 3)
	L := vrtParam("L", 3)
	e := expr.SUM(expr.FIELD("a"))
	bt := New([]expr.Expr{e}, nil, zxRes, 0, time.Time{}, time.Time{}, 0)
	base := zxBase()
	keys := make([][]byte, K)
	vals := make([]float64, K)
	for i := 0; i < K; i++ {
		keys[i] = zxKey("k"+zxItoa(i), L)
		vals[i] = float64(int(1) << uint(i)) // distinct powers of two: the sum identifies the subset
		bt.Update(keys[i], nil, zxParams(base, vals[i]), nil)
	}
	// reference: distinct keys and, per key, the sum of its updates
	type want struct {
		key []byte
		sum float64
		hit int
	}
	var wants []*want
	for i := 0; i < K; i++ {
		found := false
		for _, w := range wants {
			if zxSameKey(w.key, keys[i]) { // forks on key equality (the tree forks on the same bytes)
				w.sum += vals[i]
				found = true
				break
			}
		}
		if !found {
			wants = append(wants, &want{key: keys[i], sum: vals[i]})
		}
	}
	vrtAssert(bt.Length() == len(wants), "Length() = number of distinct keys")
	visited := 0
	bt.Walk(0, func(key []byte, data []encoding.Sequence) (bool, bool, error) {
		visited++
		matched := false
		for _, w := range wants {
			if zxSameKey(w.key, key) {
				matched = true
				w.hit++
				v, ok := data[0].ValueAt(0, e)
				vrtAssert(ok && v == w.sum, "the node of a key holds exactly that key's updates")
			}
		}
		vrtAssert(matched, "every visited node carries the key it was inserted under (key length "+zxItoa(len(key))+")")
		return true, true, nil
	})
	vrtAssert(visited == len(wants), "one visited node per distinct key")
	for _, w := range wants {
		vrtAssert(w.hit == 1, "each distinct key is visited exactly once")
	}
	// Remove under a scan context: an absent key first, then every inserted key twice
	kx := zxKey("kx", L)
	absent := true
	for _, w := range wants {
		absent = vrtAnd(absent, !zxSameKey(w.key, kx))
	}
	if absent {
		vrtAssert(bt.Remove(1, kx) == nil, "Remove of a key that was never inserted finds nothing")
	}
	for _, w := range wants {
		data := bt.Remove(1, w.key)
		vrtAssert(data != nil, "Remove finds an inserted key (key length "+zxItoa(len(w.key))+")")
		if data != nil {
			v, ok := data[0].ValueAt(0, e)
			vrtAssert(ok && v == w.sum, "Remove returns the data of exactly that key")
		}
		vrtAssert(bt.Remove(1, w.key) == nil, "a key removed under a context is not found again under it")
	}
	left := 0
	bt.Walk(1, func(key []byte, data []encoding.Sequence) (bool, bool, error) {
		left++
		return true, true, nil
	})
	vrtAssert(left == 0, "a walk under the context skips every removed key")
	vrtReach("C01.B")
}

// C18.A / C04.C — a copy of the tree taken for a scan is a snapshot: nothing done to the live
// tree afterwards (an update of an existing key and period, of a new period, of a new key) is
// visible through the copy, and removing / walking keys on the copy under a scan context does not
// change what the live tree holds (DESIGN §5 C18: the schedule quantifier reduced to sequential
// aliasing).
//
//zx:harness prop=C18+C04 id=C18.A tier=quick L=2 shard=later:3 thorough.L=3 thorough.shard=later:3,lenk1:4
func zxC18Snapshot() {
	L := vrtParam("L", 2)
	e := expr.SUM(expr.FIELD("a"))
	bt := New([]expr.Expr{e}, nil, zxRes, 0, time.Time{}, time.Time{}, 0)
	base := zxBase()
	k1 := zxKey("k1", L)
	k2 := zxKey("k2", L)
	v1, v2, v3 := vrtFloat64("v1"), vrtFloat64("v2"), vrtFloat64("v3")
	vrtAssume(vrtAnd(vrtFinite(v1), vrtAnd(vrtFinite(v2), vrtFinite(v3))))
	bt.Update(k1, nil, zxParams(base, v1), nil)
	bt.Update(k2, nil, zxParams(base, v2), nil)
	cp := bt.Copy()
	// what the copy holds now
	type row struct {
		key []byte
		seq []byte
	}
	var before []row
	cp.Walk(0, func(key []byte, data []encoding.Sequence) (bool, bool, error) {
		before = append(before, row{append([]byte(nil), key...), append([]byte(nil), data[0]...)})
		return true, true, nil
	})
	// a later insert into the live tree: same key same period / same key new period / any key
	var k3 []byte
	var ts time.Time
	switch vrtShape("later", 3) {
	case 0:
		k3, ts = k1, base
	case 1:
		k3, ts = k1, base.Add(time.Duration(vrtShape("dt", 5)-2)*zxRes)
	case 2:
		k3, ts = zxKey("k3", L), base
	}
	bt.Update(k3, nil, zxParams(ts, v3), nil)
	var after []row
	cp.Walk(0, func(key []byte, data []encoding.Sequence) (bool, bool, error) {
		after = append(after, row{key, data[0]})
		return true, true, nil
	})
	vrtAssert(len(after) == len(before), "the snapshot has the same rows after a later insert")
	if len(after) == len(before) {
		for i := range before {
			vrtAssert(zxSameKey(before[i].key, after[i].key), "snapshot row "+zxItoa(i)+" keeps its key")
			same := len(before[i].seq) == len(after[i].seq)
			if same {
				ok := true
				for j := range before[i].seq {
					ok = vrtAnd(ok, before[i].seq[j] == after[i].seq[j])
				}
				vrtAssert(ok, "snapshot row "+zxItoa(i)+" keeps its stored bytes after a later insert into the live tree")
			} else {
				vrtAssert(false, "snapshot row "+zxItoa(i)+" keeps its length after a later insert into the live tree")
			}
		}
	}
	vrtReach("C18.A")
}
