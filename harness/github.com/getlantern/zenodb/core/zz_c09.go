package core

import (
	"context"
)

// C09.L — orderedRows.Less is the lexicographic comparison by the full key list (DESIGN §5 C09.L).
//
//zx:harness prop=C09 id=C09.L tier=quick shard=nkeys:2,key0:10 L=2 thorough.L=3 thorough.shard=nkeys:3,key0:10,key1:10
func zxC09Less() {
	by := zxOrderBy(vrtParam("L", 2))
	a, b := zxFlatRow("a"), zxFlatRow("b")
	rows := orderedRows{orderBy: by, rows: []*FlatRow{a, b}}
	less := rows.Less(0, 1)
	spec := zxLexCmp(by, a, b) < 0
	vrtAssert(less == spec, "Less(a,b) = lexicographic comparison for ORDER BY "+zxByString(by))
	vrtReach("C09.L")
}

// C09.S — sorter.Iterate (real sort.Sort) emits a permutation of its input, non-decreasing under
// the lexicographic comparison of the key list.
//
//zx:harness prop=C09 id=C09.S tier=quick shard=nkeys:2,key0:6 L=2 R=3 thorough.R=4 thorough.shard=nkeys:2,key0:6,key1:6
func zxC09Sort() {
	by := zxOrderByN(vrtParam("L", 2), 3)
	R := vrtParam("R", 3)
	src := &zxFlatSrc{fields: zxFlatFields}
	for i := 0; i < R; i++ {
		src.rows = append(src.rows, zxFlatRowPlain("r"+zxItoa(i)))
	}
	var out []*FlatRow
	_, err := Sort(src, by...).Iterate(context.Background(), FieldsIgnored, func(row *FlatRow) (bool, error) {
		out = append(out, row)
		return true, nil
	})
	vrtAssert(err == nil, "sort of a complete source returns no error")
	vrtAssert(len(out) == R, "ORDER BY returns the same number of rows")
	// permutation: every input row (by identity) occurs exactly once
	for _, in := range src.rows {
		n := 0
		for _, o := range out {
			if o == in {
				n++
			}
		}
		vrtAssert(n == 1, "ORDER BY returns each input row exactly once")
	}
	for i := 0; i+1 < len(out); i++ {
		vrtAssert(zxLexCmp(by, out[i], out[i+1]) <= 0, "rows "+zxItoa(i)+","+zxItoa(i+1)+" non-decreasing for ORDER BY "+zxByString(by))
	}
	vrtReach("C09.S")
}

// C09.O — LIMIT n OFFSET m over a source of k rows emits exactly rows m .. min(k, m+n)-1, in
// source order (composition as planner.addOrderLimitOffset builds it: Limit(Offset(src, m), n)).
//
//zx:harness prop=C09 id=C09.O tier=quick K=4 thorough.K=6
func zxC09OffsetLimit() {
	K := vrtParam("K", 4)
	k := vrtShape("k", K+1)
	src := &zxFlatSrc{fields: zxFlatFields}
	for i := 0; i < k; i++ {
		src.rows = append(src.rows, &FlatRow{TS: int64(i)})
	}
	m := int(vrtRange("m", 0, int64(K)+2))
	n := int(vrtRange("n", 1, int64(K)+2)) // LIMIT 0 is D12 (planner treats 0 as "no limit"): see C09.P
	var flat FlatRowSource = src
	useOffset := vrtShape("useOffset", 2) == 1
	useLimit := vrtShape("useLimit", 2) == 1
	if useOffset {
		flat = Offset(flat, m)
	} else {
		m = 0
	}
	if useLimit {
		flat = Limit(flat, n)
	}
	var out []int64
	// a plan may be iterated more than once (sub-query plans are): every run slices the same way
	runs := vrtShape("runs", 2) + 1
	var err error
	for run := 0; run < runs; run++ {
		out = nil
		src.delivered = 0
		_, err = flat.Iterate(context.Background(), FieldsIgnored, func(row *FlatRow) (bool, error) {
			out = append(out, row.TS)
			return true, nil
		})
	}
	vrtAssert(err == nil, "no error")
	lo, hi := m, k
	if lo > k {
		lo = k
	}
	if useLimit && lo+n < hi {
		hi = lo + n
	}
	vrtAssert(len(out) == hi-lo, "LIMIT/OFFSET emit exactly min(k, m+n) - min(k, m) rows")
	for i := range out {
		vrtAssert(out[i] == int64(lo+i), "emitted row "+zxItoa(i)+" is source row m+"+zxItoa(i))
	}
	vrtReach("C09.O")
}

// C09.T — compare, the comparison behind every ORDER BY key, on two values of each dimension type
// that bytemap can hand back (both values of the same type, as the values of one dimension
// normally are): it does not panic and its sign is the order of the two values.
//
//zx:harness prop=C09+C16 id=C09.T tier=quick
func zxC09CompareTypes() {
	lo, hi := int64(vrtRange("lo", 0, 20)), int64(0)
	hi = lo + int64(vrtRange("gap", 0, 5))
	var a, b interface{}
	tname := ""
	switch vrtShape("type", 13) {
	case 0:
		a, b, tname = lo%2 == 1, hi%2 == 1, "bool"
	case 1:
		a, b, tname = byte(lo), byte(hi), "byte"
	case 2:
		a, b, tname = uint16(lo), uint16(hi), "uint16"
	case 3:
		a, b, tname = uint32(lo), uint32(hi), "uint32"
	case 4:
		a, b, tname = uint64(lo), uint64(hi), "uint64"
	case 5:
		a, b, tname = uint(lo), uint(hi), "uint"
	case 6:
		a, b, tname = int8(lo), int8(hi), "int8"
	case 7:
		a, b, tname = int16(lo), int16(hi), "int16"
	case 8:
		a, b, tname = int32(lo), int32(hi), "int32"
	case 9:
		a, b, tname = lo, hi, "int64"
	case 10:
		a, b, tname = int(lo), int(hi), "int"
	case 11:
		// float32: concrete values (the engine has no symbolic int -> float32 conversion)
		flo := vrtShape("flo", 3)
		fhi := flo + vrtShape("fgap", 2)
		lo, hi = int64(flo), int64(fhi)
		a, b, tname = float32(flo), float32(fhi), "float32"
	case 12:
		a, b, tname = float64(lo), float64(hi), "float64"
	}
	if tname == "bool" {
		va, vb := a.(bool), b.(bool)
		want := 0
		if va && !vb {
			want = 1
		} else if !va && vb {
			want = -1
		}
		vrtAssert(compare(a, b) == want && compare(b, a) == -want, "compare orders two bool values")
	} else {
		want := 0
		if lo < hi {
			want = -1
		}
		vrtAssert(compare(a, b) == want, "compare orders two "+tname+" values (a <= b)")
		vrtAssert(compare(b, a) == -want, "compare orders two "+tname+" values (b >= a)")
	}
	vrtReach("C09.T")
}
