package core

import (
	"context"
	"errors"
	"time"

	"github.com/getlantern/bytemap"
	"github.com/getlantern/goexpr"
	"github.com/getlantern/zenodb/encoding"
	"github.com/getlantern/zenodb/expr"
)

// a context that only carries a deadline (what Guard looks at)
type zxDeadlineCtx struct {
	context.Context
	deadline time.Time
}

func (c *zxDeadlineCtx) Deadline() (time.Time, bool) { return c.deadline, true }
func (c *zxDeadlineCtx) Done() <-chan struct{}       { return nil }
func (c *zxDeadlineCtx) Err() error                  { return nil }

var zxSumA = NewField("a", expr.SUM(expr.FIELD("a")))

func zxSeq(e expr.Expr, until time.Time, vals ...float64) encoding.Sequence {
	seq := encoding.NewSequence(e.EncodedWidth(), len(vals))
	seq.SetUntil(until)
	for i, v := range vals {
		seq.UpdateValueAt(i, e, expr.FloatParams(v), nil)
	}
	return seq
}

var errSource = errors.New("source failed")
var errConsumer = errors.New("consumer failed")

// C13.G — real core operators under a symbolic clock and a symbolic deadline: if Iterate returns
// a nil error then every row the source produced has been delivered downstream, and if the source
// itself failed, Iterate returns an error ("expires before the first row / between rows / during
// the final walk / never" are all one query because time.Now() is a fresh non-decreasing symbol
// at every call).
//
//zx:harness prop=C13 id=C13.G tier=quick symclock=1 shard=pipeline:8 K=3 thorough.K=4 thorough.shard=pipeline:8,rows:5
func zxC13Operators() {
	K := vrtParam("K", 3)
	k := vrtShape("rows", K+1)
	until := time.Unix(1500000000, 0)
	src := &zxRowSrc{fields: Fields{zxSumA}, resolution: time.Second, asOf: until.Add(-10 * time.Second), until: until}
	for i := 0; i < k; i++ {
		src.keys = append(src.keys, bytemap.New(map[string]interface{}{"k": i, "x": "c" + zxItoa(i%2)}))
		src.vals = append(src.vals, Vals{zxSeq(zxSumA.Expr, until, float64(i+1))})
	}
	if vrtShape("srcFails", 2) == 1 {
		src.err = errSource
	}
	var ctx context.Context = context.Background()
	if vrtShape("hasDeadline", 2) == 1 {
		ctx = &zxDeadlineCtx{context.Background(), vrtTime("deadline")}
	}
	expected := k
	var flat FlatRowSource
	switch vrtShape("pipeline", 8) {
	case 7:
		flat = Flatten(Group(src, GroupOpts{By: []GroupBy{NewGroupBy("k", goexpr.Param("k"))}, Crosstab: goexpr.Param("x")}))
	case 0:
		flat = Flatten(src)
	case 1:
		flat = Flatten(Group(src, GroupOpts{By: []GroupBy{NewGroupBy("k", goexpr.Param("k"))}}))
	case 2:
		flat = Sort(Flatten(src), NewOrderBy("a", true))
	case 3:
		flat = Offset(Flatten(src), 1)
		if expected > 0 {
			expected--
		}
	case 4:
		flat = FlatRowFilter(Flatten(src), "all", func(ctx context.Context, row *FlatRow, fields Fields) (*FlatRow, error) { return row, nil })
	case 5:
		flat = Flatten(RowFilter(src, "all", func(ctx context.Context, key bytemap.ByteMap, fields Fields, vals Vals) (bytemap.ByteMap, Vals, error) {
			return key, vals, nil
		}))
	case 6:
		flat = Sort(Flatten(Group(src, GroupOpts{})), NewOrderBy("_time", false))
	}
	got := 0
	// the consumer itself may fail at a chosen row (e.g. a response-size limit downstream)
	consumerFailsAt := vrtShape("consumerFailsAt", K+2) - 1 // -1: never
	consumerFailed := false
	_, err := flat.Iterate(ctx, FieldsIgnored, func(row *FlatRow) (bool, error) {
		if got == consumerFailsAt {
			consumerFailed = true
			return false, errConsumer
		}
		got++
		return true, nil
	})
	if src.err != nil {
		vrtAssert(err != nil, "a failed source makes Iterate return an error")
	}
	if consumerFailed {
		vrtAssert(err != nil, "an error returned by the consumer's row callback makes Iterate return an error")
	}
	if err == nil {
		vrtAssert(got == expected, "a nil error means every row of the source was delivered ("+zxItoa(expected)+")")
	}
	vrtAssert(got <= expected, "never more rows than the source has")
	vrtReach("C13.G")
}

// C06.G — real Group(src, By: subset).Iterate: output rows are keyed by the projection of the
// input keys onto the group-by, rows with equal projections are merged into one, and every input
// row contributes to exactly one output row (GROUP BY nothing: wildcard keeps every distinct key).
//
//zx:harness prop=C06 id=C06.G tier=quick shard=by:3 R=3 thorough.R=4 thorough.shard=by:3,hasD1_0:2,hasD2_0:2
func zxC06Group() {
	R := vrtParam("R", 3)
	until := time.Unix(1500000000, 0)
	src := &zxRowSrc{fields: Fields{zxSumA}, resolution: time.Second, asOf: until.Add(-10 * time.Second), until: until}
	type in struct {
		d1    interface{}
		d2    interface{}
		value float64
	}
	var ins []in
	for i := 0; i < R; i++ {
		m := map[string]interface{}{}
		var r in
		if vrtShape("hasD1_"+zxItoa(i), 2) == 1 {
			r.d1 = vrtString("d1_"+zxItoa(i), 1)
			m["d1"] = r.d1
		}
		if vrtShape("hasD2_"+zxItoa(i), 2) == 1 {
			r.d2 = int64(vrtRange("d2_"+zxItoa(i), 0, 3))
			m["d2"] = r.d2
		}
		r.value = float64(int(1) << uint(i))
		ins = append(ins, r)
		src.keys = append(src.keys, bytemap.New(m))
		src.vals = append(src.vals, Vals{zxSeq(zxSumA.Expr, until, r.value)})
	}
	bys := [][]GroupBy{
		{NewGroupBy("d1", goexpr.Param("d1"))},
		{NewGroupBy("d2", goexpr.Param("d2"))},
		{NewGroupBy("d1", goexpr.Param("d1")), NewGroupBy("d2", goexpr.Param("d2"))},
	}
	byIdx := vrtShape("by", 3)
	g := Group(src, GroupOpts{By: bys[byIdx]})
	same := func(a, b interface{}) bool {
		if a == nil || b == nil {
			return a == nil && b == nil
		}
		switch x := a.(type) {
		case string:
			return x == b.(string)
		case int64:
			return x == b.(int64)
		}
		return false
	}
	proj := func(r in) (interface{}, interface{}) {
		switch byIdx {
		case 0:
			return r.d1, nil
		case 1:
			return nil, r.d2
		}
		return r.d1, r.d2
	}
	// reference: groups of inputs with equal projections
	type grp struct {
		p1, p2 interface{}
		sum    float64
		seen   int
	}
	var want []*grp
	for _, r := range ins {
		p1, p2 := proj(r)
		found := false
		for _, w := range want {
			if same(w.p1, p1) && same(w.p2, p2) {
				w.sum += r.value
				found = true
				break
			}
		}
		if !found {
			want = append(want, &grp{p1: p1, p2: p2, sum: r.value})
		}
	}
	rows := 0
	_, err := g.Iterate(context.Background(), FieldsIgnored, func(key bytemap.ByteMap, vals Vals) (bool, error) {
		rows++
		k1, k2 := key.Get("d1"), key.Get("d2")
		v, _ := vals[0].ValueAt(0, zxSumA.Expr)
		matched := false
		for _, w := range want {
			if same(w.p1, k1) && same(w.p2, k2) {
				matched = true
				w.seen++
				vrtAssert(v == w.sum, "an output row aggregates exactly the input rows that project onto its key")
			}
		}
		vrtAssert(matched, "every output row is keyed by the projection of some input row")
		return true, nil
	})
	vrtAssert(err == nil, "no error")
	vrtAssert(rows == len(want), "one output row per distinct projection")
	for _, w := range want {
		vrtAssert(w.seen == 1, "each distinct projection appears exactly once")
	}
	vrtReach("C06.G")
}

// C07.F — Flatten(Group(src, {AsOf, Until})) on one row: the emitted timestamps are exactly the
// stored periods inside (asOf, until], each with the value the unbounded pipeline reports for the
// same timestamp; the sequence's absolute time is symbolic (any instant on the second grid).
//
//zx:harness prop=C07 id=C07.F tier=quick N=4 thorough.N=6
func zxC07Flatten() {
	N := vrtParam("N", 4)
	res := time.Second
	top := vrtGridTime("top", res)
	vals := make([]float64, N)
	for i := range vals {
		vals[i] = float64(10 + i) // period i (newest first) holds 10+i
	}
	src := &zxRowSrc{fields: Fields{zxSumA}, resolution: res, asOf: top.Add(-time.Duration(N) * res), until: top}
	src.keys = []bytemap.ByteMap{bytemap.New(map[string]interface{}{"k": "x"})}
	src.vals = []Vals{{zxSeq(zxSumA.Expr, top, vals...)}}
	// window bounds on the grid (the planner rounds them up to the resolution before grouping)
	ka := vrtShape("asOfK", N+3) - 1 // asOf = top - ka*res, ka in [-1, N+1]
	ku := vrtShape("untilK", N+3) - 1
	asOf := top.Add(-time.Duration(ka) * res)
	until := top.Add(-time.Duration(ku) * res)
	opts := GroupOpts{}
	if vrtShape("hasAsOf", 2) == 1 {
		opts.AsOf = asOf
	} else {
		asOf = src.asOf
	}
	if vrtShape("hasUntil", 2) == 1 {
		opts.Until = until
	} else {
		until = src.until
	}
	if until.Sub(asOf) < res {
		return // empty or inverted window: group.GetAsOf widens it to one period by design (C07.P)
	}
	got := map[int]float64{} // period index (relative to top) -> value
	n := 0
	_, err := Flatten(Group(src, opts)).Iterate(context.Background(), FieldsIgnored, func(row *FlatRow) (bool, error) {
		n++
		ts := time.Unix(0, row.TS)
		p := int(top.Sub(ts) / res)
		got[p] = row.Values[0]
		return true, nil
	})
	vrtAssert(err == nil, "no error")
	for p := 0; p < N; p++ {
		t := top.Add(-time.Duration(p) * res)
		inside := t.After(asOf) && !t.After(until)
		v, emitted := got[p]
		if inside {
			vrtAssert(emitted && v == vals[p], "stored period top-"+zxItoa(p)+" inside the window is returned with its value")
		} else {
			vrtAssert(!emitted, "stored period top-"+zxItoa(p)+" outside the window is not returned")
		}
	}
	vrtAssert(n == len(got), "no timestamp is emitted twice")
	vrtReach("C07.F")
}

// C04.Q — end to end on the query operators: a source hands out frozen rows (what a query reads
// from the row store); real Flatten(Group(src, {AsOf, Until, Resolution, By})) pipelines with a
// solver-chosen window — including an until before the newest stored period and a coarser
// resolution — run to completion without a single store into the source rows.
//
//zx:harness prop=C04 id=C04.Q tier=quick shard=hasUntil:2,hasAsOf:2,group:3,n0:3 N=3 thorough.N=4 thorough.shard=hasUntil:2,hasAsOf:2,group:3,n0:4,n1:4
func zxC04QueryReadOnly() {
	N := vrtParam("N", 3)
	res := time.Second
	top := vrtGridTime("top", res)
	src := &zxRowSrc{fields: Fields{zxSumA}, resolution: res, asOf: top.Add(-time.Duration(N+2) * res), until: top}
	for r := 0; r < 2; r++ {
		n := vrtShape("n"+zxItoa(r), N) + 1
		vals := make([]float64, n)
		for i := range vals {
			vals[i] = float64(10*r + i + 1)
		}
		seq := zxSeq(zxSumA.Expr, top.Add(-time.Duration(vrtShape("k"+zxItoa(r), 2))*res), vals...)
		// accumulator bytes symbolic (any stored state), header as built
		sym := vrtBytes("row"+zxItoa(r), len(seq)-8)
		copy(seq[8:], sym)
		src.keys = append(src.keys, bytemap.New(map[string]interface{}{"k": r % 2, "j": r}))
		src.vals = append(src.vals, Vals{seq})
	}
	opts := GroupOpts{}
	if vrtShape("hasUntil", 2) == 1 {
		opts.Until = top.Add(-time.Duration(vrtShape("untilK", N+2)) * res)
	}
	if vrtShape("hasAsOf", 2) == 1 {
		opts.AsOf = top.Add(-time.Duration(vrtShape("asOfK", N+3)+1) * res)
	}
	switch vrtShape("group", 3) {
	case 1:
		opts.By = []GroupBy{NewGroupBy("k", goexpr.Param("k"))}
	case 2:
		opts.By = []GroupBy{NewGroupBy("k", goexpr.Param("k"))}
		opts.Resolution = 2 * res
	}
	for i := range src.vals {
		vrtFreeze("row"+zxItoa(i), src.vals[i])
	}
	rows := 0
	_, err := Flatten(Group(src, opts)).Iterate(context.Background(), FieldsIgnored, func(row *FlatRow) (bool, error) {
		rows++
		return true, nil
	})
	vrtUnfreeze()
	vrtAssert(err == nil, "the query runs")
	vrtReach("C04.Q")
}
