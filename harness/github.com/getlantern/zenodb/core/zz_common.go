package core

import (
	"context"
	"strconv"
	"time"

	"github.com/getlantern/bytemap"
	"github.com/getlantern/zenodb/expr"
)

func zxItoa(i int) string { return strconv.Itoa(i) }

// ---- stub sources that honour the RowSource / FlatRowSource contract ------------------------

type zxFlatSrc struct {
	fields    Fields
	rows      []*FlatRow
	err       error // returned at the end (e.g. a source-side failure)
	delivered int
	stopped   bool
}

func (s *zxFlatSrc) GetGroupBy() []GroupBy         { return nil }
func (s *zxFlatSrc) GetResolution() time.Duration { return time.Second }
func (s *zxFlatSrc) GetAsOf() time.Time           { return time.Time{} }
func (s *zxFlatSrc) GetUntil() time.Time          { return time.Time{} }
func (s *zxFlatSrc) String() string               { return "zxFlatSrc" }
func (s *zxFlatSrc) Iterate(ctx context.Context, onFields OnFields, onRow OnFlatRow) (interface{}, error) {
	if err := onFields(s.fields); err != nil {
		return nil, err
	}
	for _, r := range s.rows {
		more, err := onRow(r)
		s.delivered++
		if err != nil {
			s.stopped = true
			return nil, err
		}
		if !more {
			s.stopped = true
			return nil, nil
		}
	}
	return nil, s.err
}

type zxRowSrc struct {
	fields     Fields
	keys       []bytemap.ByteMap
	vals       []Vals
	groupBy    []GroupBy
	resolution time.Duration
	asOf       time.Time
	until      time.Time
	err        error
	delivered  int
}

func (s *zxRowSrc) GetGroupBy() []GroupBy         { return s.groupBy }
func (s *zxRowSrc) GetResolution() time.Duration { return s.resolution }
func (s *zxRowSrc) GetAsOf() time.Time           { return s.asOf }
func (s *zxRowSrc) GetUntil() time.Time          { return s.until }
func (s *zxRowSrc) String() string               { return "zxRowSrc" }
func (s *zxRowSrc) Iterate(ctx context.Context, onFields OnFields, onRow OnRow) (interface{}, error) {
	if err := onFields(s.fields); err != nil {
		return nil, err
	}
	for i := range s.keys {
		more, err := onRow(s.keys[i], s.vals[i])
		s.delivered++
		if err != nil {
			return nil, err
		}
		if !more {
			return nil, nil
		}
	}
	return nil, s.err
}

// ---- symbolic flat rows ----------------------------------------------------------------------

var zxFlatFields = Fields{NewField("f1", expr.FIELD("f1")), NewField("f2", expr.FIELD("f2"))}

// zxFlatRow: TS and two finite float values symbolic; dimension d1 a 2-byte string or absent,
// dimension d2 an int64 or absent (presence chosen by shapes). Names are not prefixes of one
// another (bytemap.Get is a prefix match; see DESIGN §7).
func zxFlatRow(name string) *FlatRow {
	m := map[string]interface{}{}
	if vrtShape("hasD1"+name, 2) == 1 {
		m["d1"] = vrtString("d1"+name, 2)
	}
	if vrtShape("hasD2"+name, 2) == 1 {
		m["d2"] = vrtInt64("d2" + name)
	}
	r := &FlatRow{TS: vrtInt64("ts" + name), Key: bytemap.New(m), Values: []float64{vrtFloat64("f1" + name), vrtFloat64("f2" + name)}}
	vrtAssume(vrtAnd(vrtFinite(r.Values[0]), vrtFinite(r.Values[1])))
	r.SetFields(zxFlatFields)
	return r
}

var zxSortKeys = []string{"_time", "f1", "f2", "d1", "d2"}

func zxCmpF(a, b float64) int {
	if a < b {
		return -1
	}
	if a > b {
		return 1
	}
	return 0
}

func zxCmpI(a, b int64) int {
	if a < b {
		return -1
	}
	if a > b {
		return 1
	}
	return 0
}

func zxCmpS(a, b string) int {
	if a < b {
		return -1
	}
	if a > b {
		return 1
	}
	return 0
}

// zxCmpDim: absent sorts before present.
func zxCmpDim(a, b interface{}) int {
	if a == nil || b == nil {
		if a == nil && b == nil {
			return 0
		}
		if a == nil {
			return -1
		}
		return 1
	}
	switch x := a.(type) {
	case string:
		return zxCmpS(x, b.(string))
	case int64:
		return zxCmpI(x, b.(int64))
	}
	panic("zxCmpDim")
}

// zxLexCmp is the specification of ORDER BY: lexicographic comparison by the listed keys.
func zxLexCmp(by []OrderBy, a, b *FlatRow) int {
	for _, o := range by {
		var c int
		switch o.Field {
		case "_time":
			c = zxCmpI(a.TS, b.TS)
		case "f1":
			c = zxCmpF(a.Values[0], b.Values[0])
		case "f2":
			c = zxCmpF(a.Values[1], b.Values[1])
		default:
			c = zxCmpDim(a.Key.Get(o.Field), b.Key.Get(o.Field))
		}
		if o.Descending {
			c = -c
		}
		if c != 0 {
			return c
		}
	}
	return 0
}

// zxOrderBy draws a key list of length 1..maxLen over zxSortKeys x {asc, desc} (shapes).
func zxOrderBy(maxLen int) []OrderBy { return zxOrderByN(maxLen, len(zxSortKeys)) }

func zxOrderByN(maxLen, nk int) []OrderBy {
	n := vrtShape("nkeys", maxLen) + 1
	by := make([]OrderBy, n)
	for i := range by {
		k := vrtShape("key"+zxItoa(i), 2*nk)
		by[i] = NewOrderBy(zxSortKeys[k/2], k%2 == 1)
	}
	return by
}

func zxByString(by []OrderBy) string {
	s := ""
	for i, o := range by {
		if i > 0 {
			s += ", "
		}
		s += o.String()
	}
	return s
}

// zxFlatRowPlain: symbolic TS and two finite floats, no dimensions.
func zxFlatRowPlain(name string) *FlatRow {
	r := &FlatRow{TS: vrtInt64("ts" + name), Key: bytemap.New(map[string]interface{}{}), Values: []float64{vrtFloat64("f1" + name), vrtFloat64("f2" + name)}}
	vrtAssume(vrtAnd(vrtFinite(r.Values[0]), vrtFinite(r.Values[1])))
	r.SetFields(zxFlatFields)
	return r
}
