package encoding

import (
	"time"
)

type zxPointParams struct{ a, b float64 }

func (p zxPointParams) Get(name string) (float64, bool) {
	switch name {
	case "a":
		return p.a, true
	case "b":
		return p.b, true
	}
	return 0, false
}

func zxPoint() zxPointParams {
	p := zxPointParams{vrtFloat64("pa"), vrtFloat64("pb")}
	vrtAssume(vrtAnd(vrtFinite(p.a), vrtFinite(p.b)))
	return p
}

// zxUpdateAcc is the reference for the updated period: the real Expr.Update on a fresh copy of the
// period's previous state (nil = no data yet).
func zxUpdateAcc(l zxLayout, prev []byte, p zxPointParams) []byte {
	w := l.e.EncodedWidth()
	buf := make([]byte, w)
	if prev != nil {
		copy(buf, prev)
	}
	l.e.Update(buf, p, nil)
	return buf
}

// C01.U / C14.U — inductive step of Sequence.UpdateValue (DESIGN §5 C01.U): from an arbitrary
// valid sequence S and an arbitrary point (ts anywhere, on or off the period grid) and truncation
// bound: the point is folded into the period ending at the smallest multiple of the resolution
// >= ts and into no other; every other period newer than the bound keeps its state; a point whose
// period is not newer than the bound is not stored; no period newer than the bound is dropped.
//
//zx:harness prop=C01+C14 id=U tier=quick env=sum shard=e:2,res:2,nS:4,hasTB:2,tsK:6 ne=2 quick.below=1 quick.above=2 quick.tbbelow=0 quick.tbabove=1 N=3 thorough.N=4 thorough.ne=4 thorough.nres=3 thorough.below=2 thorough.above=3 thorough.tbbelow=1 thorough.tbabove=2 thorough.shard=e:4,res:3,nS:5,hasTB:2,tsK:10
func zxC01Update() {
	l := zxLayoutFor()
	res := zxRes()
	base := zxBase(res)
	N := vrtParam("N", 3)
	w := l.e.EncodedWidth()
	s := zxValidSeq("S", l.e, res, base, N, 2)
	zxAssumeFinite(l, s)
	old := zxClone(s)
	ts, T := zxOffGrid("ts", base, res, -N-vrtParam("below", 2), vrtParam("above", 4))
	var tb, tbr time.Time
	hasTB := vrtShape("hasTB", 2) == 1
	if hasTB {
		tb, tbr = zxOffGrid("tb", base, res, -N-vrtParam("tbbelow", 2), vrtParam("tbabove", 4))
	}
	p := zxPoint()
	r := s.UpdateValue(ts, p, nil, l.e, res, tb)

	top := T
	if len(old) > 0 && old.Until().After(top) {
		top = old.Until()
	}
	if len(r) > 0 {
		vrtAssert((len(r)-Width64bits)%w == 0, "result holds whole periods")
		vrtAssert(!r.Until().After(top), "result does not extend beyond max(old until, point period)")
	}
	stored := !hasTB || T.After(tbr)
	for k := 0; k <= 2*N+8; k++ {
		t := top.Add(-time.Duration(k) * res)
		live := !hasTB || t.After(tbr)
		got := zxAccAt(r, w, res, t)
		prev := zxAccAt(old, w, res, t)
		// one obligation per period: small formulas over that period's bytes only (they slice
		// and cache well)
		switch {
		case t.Equal(T) && stored:
			vrtAssert(zxSameAcc(l, got, zxUpdateAcc(l, prev, p)), "the point is folded into the period ending at the smallest multiple of the resolution >= ts ("+l.name+")")
		case live:
			vrtAssert(zxSameAcc(l, got, prev), "every other live period keeps its state ("+l.name+")")
		case t.Equal(T):
			vrtAssert(vrtOr(zxUnset(l, got), zxSameAcc(l, got, prev)), "a point whose period is not newer than the truncation bound is not stored ("+l.name+")")
		}
	}
	vrtReach("U")
}

// C03.S — split lemma: for an arbitrary valid S (what is on disk) and point p,
// S.Merge(empty.UpdateValue(p)) holds the same value in every live period as S.UpdateValue(p);
// with commutativity and associativity of Merge (C05.M2/M3) this gives independence from any
// split of a key's updates between file and memory (DESIGN §5 C03.S). Real mode for sums.
//
//zx:harness prop=C03+C01 id=C03.S tier=quick mode=real env=sum shard=e:2,res:2,nS:4,hasTB:2,tsK:6 ne=2 quick.below=1 quick.above=2 quick.tbbelow=0 quick.tbabove=1 N=3 thorough.N=4 thorough.ne=4 thorough.nres=3 thorough.below=2 thorough.above=3 thorough.tbbelow=1 thorough.tbabove=2 thorough.shard=e:4,res:3,nS:5,hasTB:2,tsK:10
func zxC03Split() {
	l := zxLayoutFor()
	res := zxRes()
	base := zxBase(res)
	N := vrtParam("N", 3)
	w := l.e.EncodedWidth()
	s := zxValidSeq("S", l.e, res, base, N, 2)
	zxAssumeFinite(l, s)
	disk := zxClone(s)
	ts, T := zxOffGrid("ts", base, res, -N-vrtParam("below", 2), vrtParam("above", 4))
	var tb, tbr time.Time
	hasTB := vrtShape("hasTB", 2) == 1
	if hasTB {
		tb, tbr = zxOffGrid("tb", base, res, -N-vrtParam("tbbelow", 2), vrtParam("tbabove", 4))
	}
	p := zxPoint()
	direct := s.UpdateValue(ts, p, nil, l.e, res, tb)
	mem := Sequence(nil).UpdateValue(ts, p, nil, l.e, res, tb)
	merged := disk.Merge(mem, l.e, res, tb)
	top := T
	if len(disk) > 0 && disk.Until().After(top) {
		top = disk.Until()
	}
	for k := 0; k <= 2*N+8; k++ {
		t := top.Add(-time.Duration(k) * res)
		if hasTB && !t.After(tbr) {
			continue
		}
		vrtAssert(zxSameAcc(l, zxAccAt(direct, w, res, t), zxAccAt(merged, w, res, t)), "disk.Merge(memory) = direct update in every live period ("+l.name+")")
	}
	vrtReach("C03.S")
}
