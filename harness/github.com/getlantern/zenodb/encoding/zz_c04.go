package encoding

import (
	"time"

	"github.com/getlantern/zenodb/expr"
)

// C04.T — Sequence.Truncate never writes into its operand (DESIGN §5 C04.T).
//
//zx:harness prop=C04 id=C04.T tier=quick env=sum shard=res:2,nA:4 N=3 thorough.N=5 thorough.nres=3 thorough.shard=res:3,nA:6
func zxC04Truncate() {
	res := zxRes()
	base := zxBase(res)
	e := expr.SUM("a")
	w := e.EncodedWidth()
	N := vrtParam("N", 3)
	a := zxValidSeq("A", e, res, base, N, 2)
	vrtAssume(len(a) > 0)
	// asOf / until: zero, or any grid point within [-2, N+3] periods of base, optionally off-grid
	var asOf, until time.Time
	if vrtShape("hasAsOf", 2) == 1 {
		asOf = base.Add(time.Duration(vrtShape("asOfK", N+6)-3) * res).Add(-time.Duration(vrtRange("asOfFrac", 0, int64(res)-1)))
	}
	if vrtShape("hasUntil", 2) == 1 {
		until = base.Add(time.Duration(vrtShape("untilK", N+6)-3) * res).Add(-time.Duration(vrtRange("untilFrac", 0, int64(res)-1)))
	}
	vrtFreeze("operand", a)
	r := a.Truncate(w, res, asOf, until)
	_ = r
	vrtReach("C04.T")
}
