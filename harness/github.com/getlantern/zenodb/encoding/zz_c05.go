package encoding

import (
	"time"
)

// C05.M1 / C04.M / C14.M — Sequence.Merge over two arbitrary valid sequences (DESIGN §5):
// until = max; every period newer than the (rounded) truncation bound holds the accumulator merge
// of the operands' states for that period (lead / overlap / gap / tail); periods neither operand
// has are unset; operands are not modified.
//
//zx:harness prop=C05 id=C05.M1 tier=quick env=sum shard=e:2,res:2,nA:4,nB:3 ne=2 quick.spread=2 quick.tbspan=1 quick.NB=2 N=3 thorough.ne=4 thorough.N=4 thorough.NB=3 thorough.spread=3 thorough.tbspan=2 thorough.nres=3 thorough.shard=e:4,res:3,nA:5,nB:4,hasTB:2
func zxC05Merge() { zxMergeCore(true) }

// C04.M — Merge never modifies its operands (freeze monitor only).
//
//zx:harness prop=C04 id=C04.M tier=quick env=sum shard=res:2,nA:4,nB:3 ne=1 quick.spread=2 quick.tbspan=1 quick.NB=2 N=3 thorough.ne=4 thorough.N=4 thorough.NB=3 thorough.spread=3 thorough.tbspan=2 thorough.nres=3 thorough.shard=e:4,res:3,nA:5,nB:4
func zxC04Merge() { zxMergeCore(false) }

// C14.M — Merge keeps every in-window period of both operands (same oracle as C05.M1, one layout).
//
//zx:harness prop=C14 id=C14.M tier=quick env=sum shard=res:2,nA:4,nB:3 ne=1 quick.spread=2 quick.tbspan=1 quick.NB=2 N=3 thorough.ne=2 thorough.N=4 thorough.NB=3 thorough.spread=3 thorough.tbspan=2 thorough.nres=3 thorough.shard=e:2,res:3,nA:5,nB:4
func zxC14Merge() { zxMergeCore(true) }

func zxMergeCore(oracle bool) {
	l := zxLayoutFor()
	res := zxRes()
	base := zxBase(res)
	N := vrtParam("N", 2)
	w := l.e.EncodedWidth()
	// a late, short series landing in the middle of a longer stored one needs |A| >= 3
	a := zxValidSeq("A", l.e, res, base, N, vrtParam("spread", N+1))
	b := zxValidSeq("B", l.e, res, base, vrtParam("NB", N), vrtParam("spread", N+1))
	zxAssumeFinite(l, a)
	zxAssumeFinite(l, b)
	var tb time.Time
	if vrtShape("hasTB", 2) == 1 {
		tb, _ = zxOffGrid("tb", base, res, -vrtParam("tbspan", N+1), vrtParam("tbspan", N+1)+1)
	}
	vrtFreeze("a", a)
	vrtFreeze("b", b)
	r := a.Merge(b, l.e, res, tb)
	vrtUnfreeze()
	if !oracle {
		vrtReach("M.frozen")
		return
	}

	if len(a) == 0 && len(b) == 0 {
		vrtAssert(len(r) == 0, "merge of two empty sequences is empty")
		vrtReach("M1.empty")
		return
	}
	top := zxMaxTime(a.Until(), b.Until())
	vrtAssert(len(r) >= Width64bits && (len(r)-Width64bits)%w == 0, "result holds whole periods")
	vrtAssert(r.Until().Equal(top), "result until = max of the operands' untils")
	all := true
	for p := 0; p <= 2*N+2; p++ {
		t := top.Add(-time.Duration(p) * res)
		if !tb.IsZero() && !t.After(tb) {
			continue // periods that ended at or before the (unrounded) bound may be dropped or kept
		}
		want := zxMergeAcc(l, zxAccAt(a, w, res, t), zxAccAt(b, w, res, t))
		got := zxAccAt(r, w, res, t)
		all = vrtAnd(all, zxSameAcc(l, got, want))
	}
	vrtAssert(all, "every period newer than the truncation bound holds the merge of the operands' states ("+l.name+")")
	vrtReach("M1")
}

// C05.M2 — Merge is commutative in value.
//
//zx:harness prop=C05 id=C05.M2 tier=quick env=sum shard=e:2,res:2,nA:3 ne=2 N=2 thorough.ne=4 thorough.N=3 thorough.nres=3 thorough.shard=e:4,res:3,nA:4,nB:4
func zxC05MergeComm() {
	l := zxLayoutFor()
	res := zxRes()
	base := zxBase(res)
	N := vrtParam("N", 2)
	w := l.e.EncodedWidth()
	a := zxValidSeq("A", l.e, res, base, N, N+1)
	b := zxValidSeq("B", l.e, res, base, N, N+1)
	zxAssumeFinite(l, a)
	zxAssumeFinite(l, b)
	x := a.Merge(b, l.e, res, time.Time{})
	y := b.Merge(a, l.e, res, time.Time{})
	vrtAssert(len(x) == len(y), "same length both ways")
	if len(x) > 0 {
		vrtAssert(x.Until().Equal(y.Until()), "same until both ways")
		top := x.Until()
		all := true
		for p := 0; p <= 2*N+2; p++ {
			t := top.Add(-time.Duration(p) * res)
			all = vrtAnd(all, zxSameAcc(l, zxAccAt(x, w, res, t), zxAccAt(y, w, res, t)))
		}
		vrtAssert(all, "a.Merge(b) and b.Merge(a) hold the same value in every period ("+l.name+")")
	}
	vrtReach("M2")
}

// C05.M3 — Merge is associative in value (three sequences; real mode: sums up to reassociation).
//
//zx:harness prop=C05 id=C05.M3 tier=quick mode=real env=sum shard=e:2,res:2,nA:2 ne=2 N=1 thorough.ne=4 thorough.N=2 thorough.nres=3 thorough.shard=e:4,res:3,nA:3,nB:3,nC:3
func zxC05MergeAssoc() {
	l := zxLayoutFor()
	res := zxRes()
	base := zxBase(res)
	N := vrtParam("N", 1)
	w := l.e.EncodedWidth()
	a := zxValidSeq("A", l.e, res, base, N, N+1)
	b := zxValidSeq("B", l.e, res, base, N, N+1)
	c := zxValidSeq("C", l.e, res, base, N, N+1)
	zxAssumeFinite(l, a)
	zxAssumeFinite(l, b)
	zxAssumeFinite(l, c)
	x := a.Merge(b, l.e, res, time.Time{}).Merge(c, l.e, res, time.Time{})
	y := a.Merge(b.Merge(c, l.e, res, time.Time{}), l.e, res, time.Time{})
	vrtAssert((len(x) == 0) == (len(y) == 0), "both empty or both non-empty")
	if len(x) > 0 && len(y) > 0 {
		vrtAssert(x.Until().Equal(y.Until()), "same until")
		top := x.Until()
		all := true
		for p := 0; p <= 3*N+3; p++ {
			t := top.Add(-time.Duration(p) * res)
			all = vrtAnd(all, zxSameAcc(l, zxAccAt(x, w, res, t), zxAccAt(y, w, res, t)))
		}
		vrtAssert(all, "(a⊕b)⊕c and a⊕(b⊕c) hold the same value in every period ("+l.name+")")
	}
	vrtReach("M3")
}

// C05.T / C07.T / C14.T — Truncate keeps exactly the periods inside the window, unchanged.
// With asOf' = asOf rounded down and until' = until rounded down on the sequence's own grid:
// a period ending at t is kept with identical bytes iff asOf' < t <= until' (zero bounds = open).
//
//zx:harness prop=C05+C07+C14 id=T tier=quick env=sum shard=e:2,res:2,nA:4 ne=2 quick.margin=1 N=3 thorough.ne=4 thorough.N=5 thorough.margin=2 thorough.nres=3 thorough.shard=e:4,res:3,nA:6,hasAsOf:2,hasUntil:2
func zxC05Truncate() {
	l := zxLayoutFor()
	res := zxRes()
	base := zxBase(res)
	N := vrtParam("N", 3)
	w := l.e.EncodedWidth()
	a := zxValidSeq("A", l.e, res, base, N, 2)
	vrtAssume(len(a) > 0)
	var asOf, asOfUp, until, untilUp time.Time
	hasAsOf := vrtShape("hasAsOf", 2) == 1
	hasUntil := vrtShape("hasUntil", 2) == 1
	if hasAsOf {
		asOf, asOfUp = zxOffGrid("asOf", base, res, -vrtParam("margin", 2), N+1+vrtParam("margin", 2))
	}
	if hasUntil {
		until, untilUp = zxOffGrid("until", base, res, -vrtParam("margin", 2), N+1+vrtParam("margin", 2))
	}
	orig := zxClone(a)
	r := a.Truncate(w, res, asOf, until)
	// rounded down on the grid: the grid point at or below the bound
	asOfDown, untilDown := asOfUp, untilUp
	if hasAsOf && !asOf.Equal(asOfUp) {
		asOfDown = asOfUp.Add(-res)
	}
	if hasUntil && !until.Equal(untilUp) {
		untilDown = untilUp.Add(-res)
	}
	top := orig.Until()
	n := orig.NumPeriods(w)
	all := true
	for p := 0; p < n; p++ {
		t := top.Add(-time.Duration(p) * res)
		inside := (!hasAsOf || t.After(asOfDown)) && (!hasUntil || !t.After(untilDown))
		got := zxAccAt(r, w, res, t)
		want := zxAccAt(orig, w, res, t)
		if inside {
			vrtAssert(got != nil, "period top-"+zxItoa(p)+" inside the window is kept")
			if got != nil {
				for i := range want {
					all = vrtAnd(all, got[i] == want[i])
				}
			}
		} else {
			vrtAssert(got == nil, "period top-"+zxItoa(p)+" outside the window is dropped")
		}
	}
	vrtAssert(all, "every kept period has identical bytes")
	if len(r) > 0 {
		vrtAssert((len(r)-Width64bits)%w == 0, "result holds whole periods")
		vrtAssert(!r.Until().After(top), "result does not extend beyond the original")
	}
	vrtReach("T")
}
