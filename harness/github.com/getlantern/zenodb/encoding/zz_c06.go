package encoding

import (
	"time"

	"github.com/getlantern/zenodb/expr"
)

// C06.S / C04.S / C05.S — Sequence.SubMerge re-aggregates fine periods into coarse ones without
// loss or overlap (DESIGN §5 C06.S): with P = scale·r, coarse periods are anchored at `until`;
// every fine period whose end e lies in (asOf, until] contributes to exactly the coarse period
// T = smallest anchor-grid point >= e, fine periods outside contribute nowhere, and the coarse
// state is the accumulator merge of its members (for AVG: totals and counts, not a mean of
// means). Two stored sequences are folded one after the other into the same group accumulator;
// the stored sequences are frozen (a query must not modify them).
//
//zx:harness prop=C06+C04+C05 id=S tier=quick env=sum shard=scale:2,e:2,nA:3,nB:2,hasAsOf:2 ne=2 NA=2 NB=1 spread=2 nuntil=4 thorough.NA=4 thorough.NB=2 thorough.spread=3 thorough.nuntil=6 thorough.ne=4 thorough.nres=2 thorough.shard=scale:2,e:4,nA:5,nB:3,hasAsOf:2,res1s:2
func zxC06SubMerge() {
	l := zxLayoutFor()
	r := time.Duration(1 << 30)
	if vrtShape("res1s", vrtParam("nres", 2)) == 1 {
		r = time.Second
	}
	scale := vrtShape("scale", 2) + 2
	P := time.Duration(scale) * r
	base := zxBase(r)
	NA := vrtParam("NA", 3)
	w := l.e.EncodedWidth()
	a := zxValidSeq("A", l.e, r, base, NA, vrtParam("spread", 3))
	b := zxValidSeq("B", l.e, r, base, vrtParam("NB", 2), vrtParam("spread", 3))
	zxAssumeFinite(l, a)
	zxAssumeFinite(l, b)
	until := base.Add(time.Duration(vrtShape("untilK", vrtParam("nuntil", 6))-1) * r)
	var asOf time.Time
	hasAsOf := vrtShape("hasAsOf", 2) == 1
	if hasAsOf {
		asOf = until.Add(-time.Duration(vrtShape("window", NA+5)+1) * r)
	}
	sm := l.e.SubMergers([]expr.Expr{l.e})[0]
	vrtFreeze("a", a)
	vrtFreeze("b", b)
	var out Sequence
	out = out.SubMerge(a, nil, P, r, l.e, l.e, sm, asOf, until, 0)
	out = out.SubMerge(b, nil, P, r, l.e, l.e, sm, asOf, until, 0)
	vrtUnfreeze()

	if len(out) > 0 {
		vrtAssert((len(out)-Width64bits)%w == 0, "result holds whole coarse periods")
		vrtAssert(!out.Until().After(until), "no coarse period ends after until")
	}
	// reference: per coarse period T = until - j*P, merge of the member fine periods of a then b
	all := true
	maxJ := (NA + 10) / scale
	for j := 0; j <= maxJ+1; j++ {
		T := until.Add(-time.Duration(j) * P)
		var want []byte
		for _, s := range []Sequence{a, b} {
			for i := 0; i < scale; i++ {
				e := T.Add(-time.Duration(i) * r) // fine period ends in (T-P, T]
				if hasAsOf && !e.After(asOf) {
					continue
				}
				acc := zxAccAt(s, w, r, e)
				if acc == nil {
					continue
				}
				want = zxMergeAcc(l, want, acc)
			}
		}
		got := zxAccAt(out, w, P, T)
		all = vrtAnd(all, zxSameAcc(l, got, want))
	}
	vrtAssert(all, "every coarse period holds exactly the merge of the fine periods ending in (T-P, T] and inside (asOf, until] ("+l.name+")")
	vrtReach("S")
}
