package encoding

import (
	"time"
)

// C07.R — proofs behind the summaries (DESIGN §2.2, §3.9): the real, float-based
// RoundTimeUntilUp / RoundTimeUntilDown (int64 -> float64, division, math.Floor / math.Ceil,
// float64 -> Duration, multiplication) equal the integer summaries that every env=sum harness
// substitutes for them, bit-precisely in FloatingPoint arithmetic, for every until in
// [2^40, 2^62) ns and every ts with |until - ts| <= 1024 periods.
//
//zx:harness prop=C01+C03+C04+C05+C06+C07+C14 id=C07.R tier=quick fpconv=1 timeout=600000 shard=res:2,dir:2
func zxC07RoundSummary() {
	res := zxRes()
	until := vrtTime("until")
	delta := time.Duration(vrtRange("delta", -zxSumWindow*int64(res), zxSumWindow*int64(res)))
	ts := until.Add(-delta)
	if vrtShape("dir", 2) == 0 {
		got := RoundTimeUntilUp(ts, res, until)
		want := zxRoundTimeUntilUpSum(ts, res, until)
		vrtAssert(got.Equal(want), "RoundTimeUntilUp = until - floor((until-ts)/res)*res inside the window")
	} else {
		got := RoundTimeUntilDown(ts, res, until)
		want := zxRoundTimeUntilDownSum(ts, res, until)
		vrtAssert(got.Equal(want), "RoundTimeUntilDown = until - ceil((until-ts)/res)*res inside the window")
	}
	vrtReach("C07.R")
}

// C01.R — RoundTimeUp(ts, res) is the smallest instant on Go's rounding grid of res (multiples of
// res counted from year 1) that is >= ts, and RoundTimeDown the largest that is <= ts, for every
// ts in [2^40, 2^62) ns.
//
//zx:harness prop=C01+C07 id=C01.R tier=quick timeout=120000
func zxC01RoundUp() { zxRoundSpec(1 << 30) }

// the same for the resolution users configure (1 s): the remainder by 10^9 is decided by cvc5's
// integer encoding of bit-vectors (--solve-bv-as-int=sum), see DESIGN §2
//
//zx:harness prop=C01+C07 id=C01.R1s tier=quick solver=cvc5-int timeout=300000
func zxC01RoundUp1s() { zxRoundSpec(time.Second) }

func zxRoundSpec(res time.Duration) {
	ts := vrtTime("ts")
	// Go's Round counts multiples of res from year 1: an instant t is on the grid of res iff
	// (t + off) mod res = 0 with off = (62135596800·10^9) mod res
	off := int64(0)
	if res == 1<<30 {
		off = 48627712
	}
	up := RoundTimeUp(ts, res)
	down := RoundTimeDown(ts, res)
	vrtAssert((up.UnixNano()+off)%int64(res) == 0, "RoundTimeUp yields an instant on the rounding grid")
	vrtAssert((down.UnixNano()+off)%int64(res) == 0, "RoundTimeDown yields an instant on the rounding grid")
	vrtAssert(vrtAnd(!up.Before(ts), up.Sub(ts) < res), "RoundTimeUp yields the smallest grid instant >= ts")
	vrtAssert(vrtAnd(!down.After(ts), ts.Sub(down) < res), "RoundTimeDown yields the largest grid instant <= ts")
	vrtReach("C01.R")
}
