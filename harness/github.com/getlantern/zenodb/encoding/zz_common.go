package encoding

// Shared harness helpers for package encoding (see DESIGN.md §4, §5).

import (
	"strconv"
	"time"

	"github.com/getlantern/zenodb/expr"
)

var zxResolutions = []time.Duration{1 << 30, time.Second, 7}

// zxRes picks the resolution: shape "res" (0: 2^30 ns, 1: 10^9 ns, 2: 7 ns).
func zxRes() time.Duration {
	return zxResolutions[vrtShape("res", vrtParam("nres", 2))]
}

// zxBase is an arbitrary instant on the rounding grid of res (symbolic, cancels in differences).
func zxBase(res time.Duration) time.Time {
	return vrtGridTime("base", res)
}

// zxValidSeq returns an arbitrary valid sequence for e: n <= maxPeriods periods (shape),
// until = base + k*res with 0 <= k <= spread (shape), every accumulator byte symbolic.
// n == 0 gives the empty sequence.
func zxValidSeq(name string, e expr.Expr, res time.Duration, base time.Time, maxPeriods, spread int) Sequence {
	n := vrtShape("n"+name, maxPeriods+1)
	if n == 0 {
		return nil
	}
	w := e.EncodedWidth()
	seq := make(Sequence, Width64bits+n*w)
	k := vrtShape("k"+name, spread+1)
	seq.SetUntil(base.Add(time.Duration(k) * res))
	copy(seq[Width64bits:], vrtBytes(name, n*w))
	return seq
}

// zxValAt reads the value of seq for the period ending at t (t on the grid), without going
// through the float-based rounding of ValueAtTime.
func zxValAt(seq Sequence, e expr.Expr, res time.Duration, t time.Time) (float64, bool) {
	if len(seq) == 0 {
		return 0, false
	}
	until := seq.Until()
	if t.After(until) {
		return 0, false
	}
	period := int(until.Sub(t) / res)
	return seq.ValueAt(period, e)
}

func zxItoa(i int) string { return strconv.Itoa(i) }

func zxMaxTime(a, b time.Time) time.Time {
	if b.After(a) {
		return b
	}
	return a
}

// ---- verified integer summaries of the float-based roundings (DESIGN §2.2, §3.9) -------------
//
// RoundTimeUntilUp/Down go through float64 division and math.Floor/Ceil. Callers are explored
// with these integer summaries substituted; each call carries the obligation that its arguments
// lie inside the window for which harness C07.R proves summary == real function bit-precisely.

//zx:group sum
//zx:summary github.com/getlantern/zenodb/encoding.RoundTimeUntilUp zxRoundTimeUntilUpSum
//zx:summary github.com/getlantern/zenodb/encoding.RoundTimeUntilDown zxRoundTimeUntilDownSum

const zxSumWindow = 1024 // periods

func zxFloorDiv(a, b int64) int64 {
	q := a / b
	if a%b != 0 && a < 0 {
		q--
	}
	return q
}

func zxCeilDiv(a, b int64) int64 {
	q := a / b
	if a%b != 0 && a > 0 {
		q++
	}
	return q
}

func zxRoundTimeUntilUpSum(ts time.Time, resolution time.Duration, until time.Time) time.Time {
	if ts.IsZero() {
		return ts
	}
	if until.IsZero() {
		return RoundTimeUp(ts, resolution)
	}
	delta := until.Sub(ts)
	vrtAssert(delta >= -zxSumWindow*resolution && delta <= zxSumWindow*resolution, "RoundTimeUntilUp argument inside the verified summary window")
	return until.Add(-time.Duration(zxFloorDiv(int64(delta), int64(resolution))) * resolution)
}

func zxRoundTimeUntilDownSum(ts time.Time, resolution time.Duration, until time.Time) time.Time {
	if ts.IsZero() {
		return ts
	}
	if until.IsZero() {
		return RoundTimeDown(ts, resolution)
	}
	delta := until.Sub(ts)
	vrtAssert(delta >= -zxSumWindow*resolution && delta <= zxSumWindow*resolution, "RoundTimeUntilDown argument inside the verified summary window")
	return until.Add(-time.Duration(zxCeilDiv(int64(delta), int64(resolution))) * resolution)
}

// ---- expression table for sequence-level harnesses ------------------------------------------
//
// The sequence code depends on an expression only through EncodedWidth and Merge/Update/Get, so a
// few layouts suffice here (9, 17, 18 bytes); the accumulator semantics of the whole expression
// grammar is decided in package expr (C05.A, C01.E).

type zxLayout struct {
	e      expr.Expr
	name   string
	flags  []int // offsets of "was set" flag bytes inside one accumulator state
	floats []int // offsets of 8-byte float slots
	fflag  []int // index into flags guarding each float slot
}

func zxLayouts() []zxLayout {
	a, b := expr.FIELD("a"), expr.FIELD("b")
	return []zxLayout{
		{expr.SUM(a), "SUM(a)", []int{0}, []int{1}, []int{0}},
		{expr.MIN(a), "MIN(a)", []int{0}, []int{1}, []int{0}},
		{expr.AVG(a), "AVG(a)", []int{0}, []int{1, 9}, []int{0, 0}},
		{expr.ADD(expr.MAX(a), expr.COUNT(b)), "MAX(a)+COUNT(b)", []int{0, 9}, []int{1, 10}, []int{0, 1}},
	}
}

func zxLayoutFor() zxLayout {
	ls := zxLayouts()
	// quick tier: layouts 0 (9 bytes) and 2 (17 bytes); thorough: all four, incl. the two-flag one
	ne := vrtParam("ne", len(ls))
	i := vrtShape("e", ne)
	if ne == 2 && i == 1 {
		i = 2
	}
	return ls[i]
}

func zxF64(b []byte) float64 { return Float64FromBytes(b) }

func Float64FromBytes(b []byte) float64 {
	return zxFrombits(Binary.Uint64(b))
}

// zxAssumeFinite constrains every set float slot of every period of seq to be finite (DESIGN:
// NaN/Inf accumulators are outside the claims of C01/C03/C05).
func zxAssumeFinite(l zxLayout, seq Sequence) {
	if len(seq) == 0 {
		return
	}
	w := l.e.EncodedWidth()
	for p := 0; p < seq.NumPeriods(w); p++ {
		acc := seq[Width64bits+p*w:]
		for i, off := range l.floats {
			vrtAssume(vrtImplies(acc[l.flags[l.fflag[i]]] == 1, vrtFinite(zxF64(acc[off:]))))
		}
	}
}

// zxAccAt returns the accumulator bytes of seq for the period ending at t (on the grid), or nil.
func zxAccAt(seq Sequence, w int, res time.Duration, t time.Time) []byte {
	if len(seq) == 0 {
		return nil
	}
	until := seq.Until()
	if t.After(until) {
		return nil
	}
	p := int(until.Sub(t) / res)
	if p >= seq.NumPeriods(w) {
		return nil
	}
	return seq[Width64bits+p*w : Width64bits+(p+1)*w]
}

// zxSameAcc: x and y hold the same accumulator state in value: equal set flags and, where set,
// equal floats (vrtFloatEq). nil means "no data" = all flags unset.
func zxSameAcc(l zxLayout, x, y []byte) bool {
	ok := true
	zero := make([]byte, l.e.EncodedWidth())
	if x == nil {
		x = zero
	}
	if y == nil {
		y = zero
	}
	for i := range l.flags {
		ok = vrtAnd(ok, (x[l.flags[i]] == 1) == (y[l.flags[i]] == 1))
	}
	for i, off := range l.floats {
		f := l.flags[l.fflag[i]]
		ok = vrtAnd(ok, vrtImplies(vrtAnd(x[f] == 1, y[f] == 1), vrtFloatEq(zxF64(x[off:]), zxF64(y[off:]))))
	}
	return ok
}

// zxUnset: acc carries no data.
func zxUnset(l zxLayout, x []byte) bool {
	if x == nil {
		return true
	}
	ok := true
	for _, f := range l.flags {
		ok = vrtAnd(ok, x[f] != 1)
	}
	return ok
}

// zxMergeAcc is the reference for one period: the real Expr.Merge on fresh copies (nil = unset).
func zxMergeAcc(l zxLayout, x, y []byte) []byte {
	w := l.e.EncodedWidth()
	if x == nil {
		x = make([]byte, w)
	}
	if y == nil {
		y = make([]byte, w)
	}
	out := make([]byte, w)
	l.e.Merge(out, x, y)
	return out
}

func zxClone(s Sequence) Sequence {
	if s == nil {
		return nil
	}
	return append(Sequence(nil), s...)
}

// zxOffGrid returns base + k*res - frac for shape k in [lo,hi] and symbolic 0 <= frac < res,
// together with the grid point base + k*res (which is the value rounded up on the grid).
func zxOffGrid(name string, base time.Time, res time.Duration, lo, hi int) (time.Time, time.Time) {
	k := vrtShape(name+"K", hi-lo+1) + lo
	g := base.Add(time.Duration(k) * res)
	frac := vrtRange(name+"Frac", 0, int64(res)-1)
	return g.Add(-time.Duration(frac)), g
}
