package encoding

// Shared harness helpers for package encoding (see DESIGN.md §4, §5).

import (
	"strconv"
	"time"

	"github.com/getlantern/zenodb/expr"
)

var zxResolutions = []time.Duration{1 << 30, time.Second, 7}

// zxRes picks the resolution: shape "res" (0: 2^30 ns, 1: 10^9 ns, 2: 7 ns).
func zxRes() time.Duration {
	return zxResolutions[vrtShape("res", vrtParam("nres", 2))]
}

// zxBase is an arbitrary instant on the rounding grid of res (symbolic, cancels in differences).
func zxBase(res time.Duration) time.Time {
	return vrtGridTime("base", res)
}

// zxValidSeq returns an arbitrary valid sequence for e: n <= maxPeriods periods (shape),
// until = base + k*res with 0 <= k <= spread (shape), every accumulator byte symbolic.
// n == 0 gives the empty sequence.
func zxValidSeq(name string, e expr.Expr, res time.Duration, base time.Time, maxPeriods, spread int) Sequence {
	n := vrtShape("n"+name, maxPeriods+1)
	if n == 0 {
		return nil
	}
	w := e.EncodedWidth()
	seq := make(Sequence, Width64bits+n*w)
	k := vrtShape("k"+name, spread+1)
	seq.SetUntil(base.Add(time.Duration(k) * res))
	copy(seq[Width64bits:], vrtBytes(name, n*w))
	return seq
}

// zxValAt reads the value of seq for the period ending at t (t on the grid), without going
// through the float-based rounding of ValueAtTime.
func zxValAt(seq Sequence, e expr.Expr, res time.Duration, t time.Time) (float64, bool) {
	if len(seq) == 0 {
		return 0, false
	}
	until := seq.Until()
	if t.After(until) {
		return 0, false
	}
	period := int(until.Sub(t) / res)
	return seq.ValueAt(period, e)
}

func zxItoa(i int) string { return strconv.Itoa(i) }

func zxMaxTime(a, b time.Time) time.Time {
	if b.After(a) {
		return b
	}
	return a
}

// ---- verified integer summaries of the float-based roundings (DESIGN §2.2, §3.9) -------------
//
// RoundTimeUntilUp/Down go through float64 division and math.Floor/Ceil. Callers are explored
// with these integer summaries substituted; each call carries the obligation that its arguments
// lie inside the window for which harness C07.R proves summary == real function bit-precisely.

//zx:group sum
//zx:summary github.com/getlantern/zenodb/encoding.RoundTimeUntilUp zxRoundTimeUntilUpSum
//zx:summary github.com/getlantern/zenodb/encoding.RoundTimeUntilDown zxRoundTimeUntilDownSum

const zxSumWindow = 1024 // periods

func zxFloorDiv(a, b int64) int64 {
	q := a / b
	if a%b != 0 && a < 0 {
		q--
	}
	return q
}

func zxCeilDiv(a, b int64) int64 {
	q := a / b
	if a%b != 0 && a > 0 {
		q++
	}
	return q
}

func zxRoundTimeUntilUpSum(ts time.Time, resolution time.Duration, until time.Time) time.Time {
	if ts.IsZero() {
		return ts
	}
	if until.IsZero() {
		return RoundTimeUp(ts, resolution)
	}
	delta := until.Sub(ts)
	vrtAssert(delta >= -zxSumWindow*resolution && delta <= zxSumWindow*resolution, "RoundTimeUntilUp argument inside the verified summary window")
	return until.Add(-time.Duration(zxFloorDiv(int64(delta), int64(resolution))) * resolution)
}

func zxRoundTimeUntilDownSum(ts time.Time, resolution time.Duration, until time.Time) time.Time {
	if ts.IsZero() {
		return ts
	}
	if until.IsZero() {
		return RoundTimeDown(ts, resolution)
	}
	delta := until.Sub(ts)
	vrtAssert(delta >= -zxSumWindow*resolution && delta <= zxSumWindow*resolution, "RoundTimeUntilDown argument inside the verified summary window")
	return until.Add(-time.Duration(zxCeilDiv(int64(delta), int64(resolution))) * resolution)
}
