package encoding

import "math"

func zxFrombits(u uint64) float64 { return math.Float64frombits(u) }
