package expr

// C01.E / C05.A / C05.L — accumulator semantics of the expression grammar (DESIGN §5).
//
// For every expression tree of the table, built with the real constructors:
//   * folding points with Update gives a state whose Get equals the reference aggregate computed
//     directly from the raw points (C01.E);
//   * Merge(state(P[:s]), state(P[s:])) has the same Get as state(P) for every split s (C05.A:
//     combining partial aggregates equals aggregating the raw points);
//   * Update/Merge/Get consume exactly EncodedWidth() bytes, Merge writes only into its output
//     and never into its operands (C05.L, freeze monitor).
// Values are compared on the reals (mode=real: "up to floating-point reassociation"); inputs are
// finite. PERCENTILE is outside (DESIGN §5).

import (
	"github.com/getlantern/goexpr"
)

type zxPoint struct {
	hasA, hasB bool
	a, b       float64
	include    bool // value of the IF condition on this point's dimensions
}

func (p *zxPoint) Get(name string) (float64, bool) {
	switch name {
	case "a":
		return p.a, p.hasA
	case "b":
		return p.b, p.hasB
	}
	return 0, false
}

// metadata + condition for IF: the condition evaluates to the point's include flag
type zxMeta struct{ p *zxPoint }

func (m zxMeta) Get(key string) interface{} { return m.p.include }

type zxCond struct{}

func (zxCond) Eval(params goexpr.Params) interface{}  { return params.Get("include") }
func (zxCond) WalkParams(cb func(string))             { cb("include") }
func (zxCond) WalkOneToOneParams(cb func(string))     {}
func (zxCond) WalkLists(cb func(goexpr.List))         {}
func (zxCond) String() string                         { return "include" }

// ---- specification trees -------------------------------------------------------------------

type zxSpec struct {
	kind   string // SUM MIN MAX COUNT AVG WAVG CONST IF BOUNDED_IN BOUNDED_OUT op
	field  string
	weight string
	c      float64
	lo, hi float64
	op     string
	l, r   *zxSpec
}

func zxAgg(kind, field string) *zxSpec { return &zxSpec{kind: kind, field: field} }
func zxBin(op string, l, r *zxSpec) *zxSpec { return &zxSpec{kind: "op", op: op, l: l, r: r} }

func (s *zxSpec) build() Expr {
	switch s.kind {
	case "SUM":
		return SUM(FIELD(s.field))
	case "MIN":
		return MIN(FIELD(s.field))
	case "MAX":
		return MAX(FIELD(s.field))
	case "COUNT":
		return COUNT(FIELD(s.field))
	case "AVG":
		return AVG(FIELD(s.field))
	case "WAVG":
		return WAVG(FIELD(s.field), FIELD(s.weight))
	case "CONST":
		return CONST(s.c)
	case "IF":
		return IF(zxCond{}, s.l.build())
	case "SUMB": // SUM(BOUNDED(field, lo, hi)): out-of-range values are discarded
		return SUM(BOUNDED(FIELD(s.field), s.lo, s.hi))
	case "BOUT": // BOUNDED(agg, lo, hi): the reported value is hidden when out of range
		return BOUNDED(s.l.build(), s.lo, s.hi)
	case "SHIFT":
		return SHIFT(s.l.build(), -1000000000)
	case "LN":
		e, _ := UnaryMath("LN", s.l.build())
		return e
	case "op":
		return binaryExprFor(s.op, s.l.build(), s.r.build())
	}
	panic("spec kind " + s.kind)
}

// eval is the reference: the value the expression must report for the raw points.
func (s *zxSpec) eval(pts []*zxPoint) (float64, bool) {
	switch s.kind {
	case "SUM", "MIN", "MAX", "COUNT", "SUMB":
		set := false
		acc := 0.0
		for _, p := range pts {
			v, ok := p.Get(s.field)
			if !ok {
				continue
			}
			if s.kind == "SUMB" && !(v >= s.lo && v <= s.hi) {
				continue
			}
			switch s.kind {
			case "SUM", "SUMB":
				acc += v
			case "COUNT":
				acc += 1
			case "MIN":
				if !set || v < acc {
					acc = v
				}
			case "MAX":
				if !set || v > acc {
					acc = v
				}
			}
			set = true
		}
		return acc, set
	case "AVG", "WAVG":
		set := false
		count, total := 0.0, 0.0
		for _, p := range pts {
			v, ok := p.Get(s.field)
			if !ok {
				continue
			}
			w := 1.0
			if s.kind == "WAVG" {
				w, _ = p.Get(s.weight) // a missing weight counts as weight 0
			}
			count += w
			total += v * w
			set = true
		}
		if !set {
			return 0, false
		}
		if count == 0 {
			return 0, true
		}
		return total / count, true
	case "CONST":
		return s.c, true
	case "IF":
		var in []*zxPoint
		for _, p := range pts {
			if p.include {
				in = append(in, p)
			}
		}
		return s.l.eval(in)
	case "BOUT":
		v, set := s.l.eval(pts)
		if !set || !(v >= s.lo && v <= s.hi) {
			return 0, false
		}
		return v, true
	case "SHIFT":
		return s.l.eval(pts)
	case "LN":
		v, set := s.l.eval(pts)
		if set {
			v = unaryMathFNs["LN"](v)
		}
		return v, set
	case "op":
		lv, ls := s.l.eval(pts)
		rv, rs := s.r.eval(pts)
		if !ls && !rs {
			return 0, false
		}
		if !ls {
			lv = 0
		}
		if !rs {
			rv = 0
		}
		return zxCalc(s.op, lv, rv), true
	}
	panic("spec kind " + s.kind)
}

func zxB(c bool) float64 {
	if c {
		return 1
	}
	return 0
}

func zxCalc(op string, l, r float64) float64 {
	switch op {
	case "+":
		return l + r
	case "-":
		return l - r
	case "*":
		return l * r
	case "/":
		if r == 0 {
			if l == 0 {
				return 0
			}
			return 1.79769313486231570814527423731704356798070e+308
		}
		return l / r
	case "<":
		return zxB(l < r)
	case "<=":
		return zxB(l <= r)
	case "=":
		return zxB(l == r)
	case "<>":
		return zxB(l != r)
	case ">=":
		return zxB(l >= r)
	case ">":
		return zxB(l > r)
	case "AND":
		return zxB(l > 0 && r > 0)
	case "OR":
		return zxB(l > 0 || r > 0)
	}
	panic("op " + op)
}

// zxSpecs is the expression table (depth <= 2 over the supported grammar).
func zxSpecs() []*zxSpec {
	sumA, minA, maxB, cntA, avgA := zxAgg("SUM", "a"), zxAgg("MIN", "a"), zxAgg("MAX", "b"), zxAgg("COUNT", "a"), zxAgg("AVG", "a")
	sumB := zxAgg("SUM", "b")
	wavg := &zxSpec{kind: "WAVG", field: "a", weight: "b"}
	return []*zxSpec{
		sumA, minA, zxAgg("MAX", "a"), cntA, avgA, wavg,
		{kind: "SUMB", field: "a", lo: -5, hi: 5},
		{kind: "BOUT", l: sumA, lo: 0, hi: 10},
		{kind: "IF", l: sumA},
		{kind: "IF", l: avgA},
		{kind: "SHIFT", l: sumA},
		zxBin("+", sumA, maxB), zxBin("-", sumA, sumB), zxBin("*", avgA, cntA), zxBin("/", sumA, cntA), zxBin("/", sumA, sumB),
		zxBin("<", sumA, sumB), zxBin("<=", minA, maxB), zxBin("=", cntA, &zxSpec{kind: "CONST", c: 2}), zxBin("<>", sumA, sumB),
		zxBin(">=", sumA, &zxSpec{kind: "CONST", c: 0}), zxBin(">", avgA, maxB),
		zxBin("AND", zxBin(">", sumA, &zxSpec{kind: "CONST", c: 0}), zxBin("<", sumB, &zxSpec{kind: "CONST", c: 3})),
		zxBin("OR", cntA, sumB),
		zxBin("+", &zxSpec{kind: "IF", l: sumA}, zxBin("*", minA, &zxSpec{kind: "CONST", c: 2})),
		{kind: "LN", l: sumA},
	}
}

func zxPoints(n int) []*zxPoint {
	pts := make([]*zxPoint, n)
	for i := range pts {
		p := &zxPoint{hasA: vrtBool("hasA"), hasB: vrtBool("hasB"), a: vrtFloat64("a"), b: vrtFloat64("b"), include: vrtBool("incl")}
		vrtAssume(vrtAnd(vrtFinite(p.a), vrtFinite(p.b)))
		pts[i] = p
	}
	return pts
}

func zxFold(e Expr, pts []*zxPoint) []byte {
	w := e.EncodedWidth()
	buf := make([]byte, w+2)
	buf[w], buf[w+1] = 0xAA, 0x55 // sentinels beyond the state: must never be written
	vrtFreeze("sentinel", buf[w:])
	for _, p := range pts {
		remain, _, _ := e.Update(buf, p, zxMeta{p})
		vrtAssert(len(remain) == 2, "Update consumes exactly EncodedWidth() bytes")
	}
	return buf[:w:w]
}

//zx:harness prop=C01+C05 id=E.A tier=quick mode=real shard=spec:26 K=2 thorough.K=3
func zxC05Accumulators() {
	specs := zxSpecs()
	s := specs[vrtShape("spec", len(specs))]
	e := s.build()
	w := e.EncodedWidth()
	K := vrtParam("K", 2)
	k := vrtShape("k", K+1)
	pts := zxPoints(k)
	// (C01.E) fold of all points vs reference from raw points
	all := zxFold(e, pts)
	got, gotSet, remain := e.Get(all)
	vrtAssert(len(remain) == 0, "Get consumes exactly EncodedWidth() bytes")
	want, wantSet := s.eval(pts)
	vrtAssert(gotSet == wantSet, "set flag of "+e.String()+" after "+zxItoa(k)+" updates = reference")
	vrtAssert(vrtImplies(vrtAnd(gotSet, wantSet), vrtFloatEq(got, want)), "value of "+e.String()+" after "+zxItoa(k)+" updates = reference aggregate of the raw points")
	// (C05.A) every split
	for sp := 0; sp <= k; sp++ {
		x := zxFold(e, pts[:sp])
		y := zxFold(e, pts[sp:])
		out := make([]byte, w+2)
		out[w], out[w+1] = 0xAA, 0x55
		vrtFreeze("x", x)
		vrtFreeze("y", y)
		vrtFreeze("out.sentinel", out[w:])
		rb, rx, ry := e.Merge(out, x, y)
		vrtUnfreeze()
		vrtAssert(len(rb) == 2 && len(rx) == 0 && len(ry) == 0, "Merge consumes exactly EncodedWidth() bytes of b, x and y")
		mv, mset, _ := e.Get(out[:w])
		vrtAssert(mset == wantSet, "set flag of merge("+zxItoa(sp)+"|"+zxItoa(k-sp)+") of "+e.String()+" = reference")
		vrtAssert(vrtImplies(vrtAnd(mset, wantSet), vrtFloatEq(mv, want)), "merge("+zxItoa(sp)+"|"+zxItoa(k-sp)+") of "+e.String()+" = aggregate of all raw points")
	}
	vrtReach("E.A")
}

func zxItoa(i int) string {
	if i == 0 {
		return "0"
	}
	s := ""
	for i > 0 {
		s = string(rune('0'+i%10)) + s
		i /= 10
	}
	return s
}
