package expr

import "time"

// E.X (C05.X / C06.X) — SubMergers: how a query expression is re-aggregated from stored columns.
// K fine periods, each holding the fold of one raw point, are stored as columns of the simple
// aggregates SUM(a), SUM(b), MIN(a), MAX(b), COUNT(a), AVG(a) (period 0 = newest, as in a
// Sequence). The out-expression E = W or SHIFT(W, −k·res), W a tree over those aggregates, is
// computed the way Sequence.SubMerge does it — for every fine period po and every column i,
// SubMergers(cols)[i](acc, col_i[po·width_i:]) — with all K fine periods falling into one coarse
// period. Get(acc) must equal the reference aggregate of the raw points of the fine periods
// po+k < K (a shift by k periods reads every column k periods further back, whatever the widths
// of the columns and of W are); unshifted, of all K points. Column sets: the simple aggregates;
// the same plus duplicates of two of them; the expression itself, twice (what a cluster leader
// re-aggregates).

func zxSubSpecs() []*zxSpec {
	sumA, sumB, minA, maxB, cntA, avgA := zxAgg("SUM", "a"), zxAgg("SUM", "b"), zxAgg("MIN", "a"), zxAgg("MAX", "b"), zxAgg("COUNT", "a"), zxAgg("AVG", "a")
	return []*zxSpec{
		sumA, minA, maxB, cntA, avgA,
		zxBin("-", sumA, sumB), zxBin("+", sumA, maxB), zxBin("/", sumA, cntA), zxBin("*", avgA, cntA), zxBin("/", sumA, sumB),
		zxBin("+", zxBin("-", sumA, sumB), avgA),
		{kind: "LN", l: sumA},
		{kind: "BOUT", l: sumA, lo: 0, hi: 10},
	}
}

//zx:harness prop=C05+C06+C11 id=E.X tier=quick mode=real shard=spec:13,cols:3 K=3 thorough.K=4
func zxC05SubMergers() {
	specs := zxSubSpecs()
	s := specs[vrtShape("spec", len(specs))]
	w := s.build()
	K := vrtParam("K", 3)
	res := time.Second
	k := 0
	var e Expr = w
	if vrtShape("shifted", 2) == 1 {
		k = vrtShape("k", K+1) // k = K: shifted beyond the stored periods
		e = SHIFT(w, -time.Duration(k)*res)
	}
	pts := zxPoints(K)
	cols := []Expr{SUM(FIELD("a")), SUM(FIELD("b")), MIN(FIELD("a")), MAX(FIELD("b")), COUNT(FIELD("a")), AVG(FIELD("a"))}
	switch vrtShape("cols", 3) {
	case 1:
		// two stored columns with the same expression (SELECT a, a AS total): each contributes once
		cols = append(cols, SUM(FIELD("a")), AVG(FIELD("a")))
	case 2:
		// the stored column is the expression itself (a cluster leader re-aggregates what the
		// partitions computed: its input columns are its output expressions)
		cols = []Expr{s.build(), s.build()}
	}
	data := make([][]byte, len(cols))
	for i, c := range cols {
		cw := c.EncodedWidth()
		data[i] = make([]byte, K*cw)
		for j, p := range pts {
			c.Update(data[i][j*cw:], p, zxMeta{p})
		}
		vrtFreeze("column "+c.String(), data[i])
	}
	sms := e.SubMergers(cols)
	acc := make([]byte, e.EncodedWidth()+2)
	acc[e.EncodedWidth()], acc[e.EncodedWidth()+1] = 0xAA, 0x55
	vrtFreeze("sentinel", acc[e.EncodedWidth():])
	for po := 0; po < K; po++ {
		for i, sm := range sms {
			if sm != nil {
				sm(acc, data[i][po*cols[i].EncodedWidth():], res, nil)
			}
		}
	}
	vrtUnfreeze()
	got, gotSet, _ := e.Get(acc[:e.EncodedWidth()])
	var members []*zxPoint
	if k < K {
		members = pts[k:]
	}
	want, wantSet := s.eval(members)
	vrtAssert(gotSet == wantSet, "set flag of "+e.String()+" re-aggregated from stored columns = reference over the fine periods "+zxItoa(k)+".."+zxItoa(K-1))
	vrtAssert(vrtImplies(vrtAnd(gotSet, wantSet), vrtFloatEq(got, want)), "value of "+e.String()+" re-aggregated from stored columns = reference aggregate of the raw points of the fine periods "+zxItoa(k)+".."+zxItoa(K-1))
	vrtReach("E.X")
}
