package expr

import (
	"github.com/getlantern/goexpr"
)

type zxDimMeta struct{ flag interface{} }

func (m zxDimMeta) Get(key string) interface{} {
	if key == "flag" {
		return m.flag
	}
	return nil
}

// C16.E — an IF-conditioned field never panics on oddly typed dimensions: whatever the type of
// the dimension its condition reads (absent, bool, string, int, float, bytes), Update returns, a
// condition that is not a true boolean counts as "not included", and Get afterwards still works.
// (The fold runs on the ingest goroutine, outside table.insert's recover: a panic here kills the
// process.)
//
//zx:harness prop=C16 id=C16.E tier=quick
func zxC16IfCondition() {
	conds := []goexpr.Expr{goexpr.Param("flag")}
	if eq, err := goexpr.Binary("==", goexpr.Param("flag"), goexpr.Constant("x")); err == nil {
		conds = append(conds, eq)
	}
	if lt, err := goexpr.Binary("<", goexpr.Param("flag"), goexpr.Constant(5)); err == nil {
		conds = append(conds, lt)
	}
	ci := vrtShape("cond", len(conds))
	e := IF(conds[ci], SUM(FIELD("a")))
	values := []interface{}{nil, true, false, "x", "y", 5, int64(3), 1.5, []byte("x"), uint8(1)}
	vi := vrtShape("value", len(values))
	v := vrtFloat64("v")
	vrtAssume(vrtFinite(v))
	buf := make([]byte, e.EncodedWidth())
	panicked := true
	updated := false
	func() {
		defer func() { recover() }()
		_, _, updated = e.Update(buf, FloatParams(v), zxDimMeta{values[vi]})
		panicked = false
	}()
	vrtAssert(!panicked, "IF condition #"+zxItoa(ci)+" does not panic on dimension value #"+zxItoa(vi))
	if !panicked {
		got, set, _ := e.Get(buf)
		if ci == 0 {
			// bare dimension as condition: only a true boolean includes the point
			want := values[vi] == interface{}(true)
			vrtAssert(updated == want && set == want, "a bare-dimension condition includes the point iff the dimension is the boolean true")
			if set {
				vrtAssert(vrtFloatEq(got, v), "the included point's value is stored")
			}
		}
	}
	vrtReach("C16.E")
}
