package expr

import (
	"github.com/getlantern/goexpr"
)

type zxDimMeta struct{ flag interface{} }

func (m zxDimMeta) Get(key string) interface{} {
	if key == "flag" {
		return m.flag
	}
	return nil
}

// C16.E — an IF-conditioned field never panics on oddly typed dimensions: whatever the type of
// the dimension its condition reads (absent, bool, string, int, float, bytes), Update returns, a
// condition that is not a true boolean counts as "not included", and Get afterwards still works.
// (The fold runs on the ingest goroutine, outside table.insert's recover: a panic here kills the
// process.)
//
//zx:harness prop=C16 id=C16.E tier=quick
func zxC16IfCondition() {
	conds := []goexpr.Expr{goexpr.Param("flag")}
	if eq, err := goexpr.Binary("==", goexpr.Param("flag"), goexpr.Constant("x")); err == nil {
		conds = append(conds, eq)
	}
	if lt, err := goexpr.Binary("<", goexpr.Param("flag"), goexpr.Constant(5)); err == nil {
		conds = append(conds, lt)
	}
	ci := vrtShape("cond", len(conds))
	e := IF(conds[ci], SUM(FIELD("a")))
	values := []interface{}{nil, true, false, "x", "y", 5, int64(3), 1.5, []byte("x"), uint8(1)}
	vi := vrtShape("value", len(values))
	v := vrtFloat64("v")
	vrtAssume(vrtFinite(v))
	buf := make([]byte, e.EncodedWidth())
	panicked := true
	updated := false
	func() {
		defer func() { recover() }()
		_, _, updated = e.Update(buf, FloatParams(v), zxDimMeta{values[vi]})
		panicked = false
	}()
	vrtAssert(!panicked, "IF condition #"+zxItoa(ci)+" does not panic on dimension value #"+zxItoa(vi))
	if !panicked {
		got, set, _ := e.Get(buf)
		if ci == 0 {
			// bare dimension as condition: only a true boolean includes the point
			want := values[vi] == interface{}(true)
			vrtAssert(updated == want && set == want, "a bare-dimension condition includes the point iff the dimension is the boolean true")
			if set {
				vrtAssert(vrtFloatEq(got, v), "the included point's value is stored")
			}
		}
	}
	vrtReach("C16.E")
}

// E.S (C15 / C03) — fields are identified, in the table definition, in the filestore header and
// in every column mapping, by the text of their expression (core.Field.String / Equals). Two
// different expression trees of the specification table must therefore have different texts:
// otherwise redefining a field from one to the other is taken for "unchanged" and the new field
// silently inherits the old one's stored state and keeps its old semantics.
//
//zx:harness prop=C15+C03 id=E.S tier=quick
func zxC15ExprTexts() {
	specs := zxSpecs()
	i := vrtShape("i", len(specs))
	j := vrtShape("j", len(specs))
	if i >= j {
		vrtReach("E.S")
		return
	}
	a, b := specs[i].build(), specs[j].build()
	vrtAssert(a.String() != b.String(), "different expressions have different texts: "+a.String()+" is the text of spec "+zxItoa(i)+" and of spec "+zxItoa(j))
	vrtReach("E.S")
}
