package planner

// C08.U — HAVING over a field that the SELECT list does not contain ("the value grammar ... over
// selected or unselected fields"), over a table and over a FROM-sub-query. The reference is the
// query that also selects the operands of the predicate, without HAVING: its rows are filtered in
// the harness on their reported values and projected onto the selected columns.

type zxUnselCase struct {
	with, ref string
	keep      int                       // leading columns of ref that the query with HAVING selects
	pred      func(vals []float64) bool // over the values of ref
}

var zxUnselCases = []zxUnselCase{
	{"SELECT a FROM t GROUP BY x HAVING b > 5", "SELECT a, b FROM t GROUP BY x", 1, func(v []float64) bool { return v[1] > 5 }},
	{"SELECT a FROM t GROUP BY x, y HAVING b - a >= 0", "SELECT a, b FROM t GROUP BY x, y", 1, func(v []float64) bool { return v[1]-v[0] >= 0 }},
	{"SELECT b FROM t GROUP BY y, period(2s) HAVING a < 3 OR b = 1", "SELECT b, a FROM t GROUP BY y, period(2s)", 1, func(v []float64) bool { return v[1] < 3 || v[0] == 1 }},
	{"SELECT a FROM t HAVING b > a", "SELECT a, b FROM t", 1, func(v []float64) bool { return v[1] > v[0] }},
	// over a FROM-sub-query: a column of the sub-query that the outer SELECT does not list
	{"SELECT a FROM (SELECT a, b FROM t GROUP BY x, y) GROUP BY x HAVING b > 5", "SELECT a, b FROM (SELECT a, b FROM t GROUP BY x, y) GROUP BY x", 1, func(v []float64) bool { return v[1] > 5 }},
	{"SELECT a, b FROM (SELECT a, b FROM t GROUP BY x, y) GROUP BY x HAVING b > 5", "SELECT a, b FROM (SELECT a, b FROM t GROUP BY x, y) GROUP BY x", 2, func(v []float64) bool { return v[1] > 5 }},
}

//zx:harness prop=C08 id=C08.U tier=quick mode=real shard=case:6,x0:2 R=2 quick.ny=2 quick.nperiods=1 thorough.R=3 thorough.ny=2 thorough.nperiods=2 thorough.shard=case:6,x0:2,y0:2
func zxC08HavingUnselected() {
	c := zxUnselCases[vrtShape("case", len(zxUnselCases))]
	periods := vrtShape("periods", vrtParam("nperiods", 2)) + 3 - vrtParam("nperiods", 2)
	rows := zxInRows(vrtParam("R", 2), periods)
	tbl := zxTableOf("t", rows, periods, []string{"x"})
	pw, err1 := Plan(c.with, zxOpts(map[string]*zxTable{"t": tbl}))
	po, err2 := Plan(c.ref, zxOpts(map[string]*zxTable{"t": tbl}))
	vrtAssert(err1 == nil && err2 == nil, "both queries plan: "+c.with)
	if err1 != nil || err2 != nil {
		return
	}
	got, gnames, gerr := zxRun(pw)
	all, anames, aerr := zxRun(po)
	vrtAssert(gerr == nil && aerr == nil, "both queries run: "+c.with)
	sameNames := len(gnames) == c.keep && len(anames) >= c.keep
	for i := 0; sameNames && i < c.keep; i++ {
		sameNames = gnames[i] == anames[i]
	}
	vrtAssert(sameNames, "HAVING over an unselected field exposes neither it nor the helper column: "+c.with)
	var want []zxOutRow
	for _, r := range all {
		if c.pred(r.vals) {
			want = append(want, zxOutRow{r.ts, r.key, r.vals[:c.keep]})
		}
	}
	vrtAssert(len(got) == len(want), "HAVING over an unselected field returns exactly the rows that satisfy it: "+c.with)
	vrtAssert(zxSameRows(want, got, false), "HAVING over an unselected field returns the satisfying rows unchanged: "+c.with)
	vrtReach("C08.U")
}
