package planner

// C11.V / C10 — translation validation of the distributed plan (DESIGN §5 C11.V): for each query
// shape of the corpus and each partition-key set, the real planner.Plan builds (a) the local plan
// over a stub table holding rows R and (b) the cluster plan, whose QueryCluster runs the text it
// is given through the real local planner on N stub partition tables holding a key-respecting
// split of R (unflattened when the leader asks for unflat rows, as DB.queryForRemote does).
// Programs (queries, key sets, N, row shapes) are enumerated by shape variables; the data (field
// values) are symbolic reals. Both executions must produce the same rows.
//
// C08.H / C08.W — HAVING and WHERE through the real planner: a query with HAVING returns exactly
// those rows of the HAVING-free query whose reported values satisfy the predicate, without the
// helper column; a query with WHERE returns what the same query returns over only the matching
// input rows.

import (
	"context"
	"time"

	"github.com/getlantern/bytemap"
	"github.com/getlantern/goexpr"
	"github.com/getlantern/zenodb/core"
	"github.com/getlantern/zenodb/encoding"
	"github.com/getlantern/zenodb/expr"
)

type zxInRow struct {
	x, y int     // dims (y == 0: absent)
	a, b [3]float64 // values of fields a, b for the newest periods
}

func zxSeqOf(e expr.Expr, vals [3]float64, periods int) encoding.Sequence {
	seq := encoding.NewSequence(e.EncodedWidth(), periods)
	seq.SetUntil(zxUntil)
	for p := 0; p < periods; p++ {
		seq.UpdateValueAt(p, e, expr.FloatParams(vals[p]), nil)
	}
	return seq
}

// zxInRows draws R rows: dims from small pools (shapes), values symbolic finite reals.
func zxInRows(R, periods int) []zxInRow {
	rows := make([]zxInRow, R)
	for i := range rows {
		r := &rows[i]
		r.x = vrtShape("x"+zxItoa(i), 2+vrtParam("xabsent", 0)) + 1 - vrtParam("xabsent", 0)
		r.y = vrtShape("y"+zxItoa(i), vrtParam("ny", 3))
		for p := 0; p < periods; p++ {
			r.a[p], r.b[p] = vrtFloat64("a"), vrtFloat64("b")
			vrtAssume(vrtAnd(vrtFinite(r.a[p]), vrtFinite(r.b[p])))
		}
	}
	return rows
}

func zxKeyOf(r zxInRow) bytemap.ByteMap {
	m := map[string]interface{}{}
	if r.x != 0 {
		m["x"] = r.x
	}
	if r.y != 0 {
		m["y"] = r.y
	}
	return bytemap.New(m)
}

// zxTableOf builds a table from rows; rows with equal keys are merged as the real table does.
func zxTableOf(name string, rows []zxInRow, periods int, partitionBy []string) *zxTable {
	t := &zxTable{name: name, fields: zxTableFields(), partitionBy: partitionBy}
	for _, r := range rows {
		k := zxKeyOf(r)
		pts := [3]float64{1, 1, 1}
		vals := core.Vals{zxSeqOf(t.fields[0].Expr, pts, periods), zxSeqOf(t.fields[1].Expr, r.a, periods), zxSeqOf(t.fields[2].Expr, r.b, periods)}
		merged := false
		for i, ek := range t.keys {
			if string(ek) == string(k) {
				for j := range vals {
					t.vals[i][j] = t.vals[i][j].Merge(vals[j], t.fields[j].Expr, zxRes, time.Time{})
				}
				merged = true
			}
		}
		if !merged {
			t.keys = append(t.keys, k)
			t.vals = append(t.vals, vals)
		}
	}
	return t
}

type zxOutRow struct {
	ts   int64
	key  string
	vals []float64
}

func zxRun(plan core.FlatRowSource) ([]zxOutRow, []string, error) {
	var out []zxOutRow
	var names []string
	_, err := plan.Iterate(context.Background(), func(fields core.Fields) error {
		names = fields.Names()
		return nil
	}, func(row *core.FlatRow) (bool, error) {
		out = append(out, zxOutRow{row.TS, string(row.Key), append([]float64(nil), row.Values...)})
		return true, nil
	})
	return out, names, err
}

// zxSameRows: same rows (paired by timestamp and key, which identify a row of a grouped result),
// same values; in the same order when ordered.
func zxSameRows(a, b []zxOutRow, ordered bool) bool {
	if len(a) != len(b) {
		return false
	}
	ok := true
	used := make([]bool, len(b))
	for i, ra := range a {
		j := -1
		if ordered {
			if ra.ts == b[i].ts && ra.key == b[i].key {
				j = i
			}
		} else {
			for c, rb := range b {
				if !used[c] && ra.ts == rb.ts && ra.key == rb.key {
					j = c
					break
				}
			}
		}
		if j < 0 {
			return false
		}
		used[j] = true
		if len(ra.vals) != len(b[j].vals) {
			return false
		}
		for v := range ra.vals {
			ok = vrtAnd(ok, vrtFloatEq(ra.vals[v], b[j].vals[v]))
		}
	}
	return ok
}

type zxQuery struct {
	sql     string
	ordered bool
}

var zxCorpus = []zxQuery{
	{"SELECT * FROM t", false},
	{"SELECT a FROM t GROUP BY x", false},
	{"SELECT a, b FROM t GROUP BY y", false},
	{"SELECT a FROM t GROUP BY _", false},
	{"SELECT a, b FROM t GROUP BY x, y", false},
	{"SELECT a FROM t GROUP BY x, period(2s)", false},
	{"SELECT a + b AS c FROM t GROUP BY x", false},
	{"SELECT AVG(a) AS m FROM t GROUP BY y", false},
	{"SELECT a FROM t WHERE x = 1 GROUP BY y", false},
	{"SELECT a FROM t WHERE y = 2", false},
	{"SELECT a FROM t GROUP BY x HAVING a > 5", false},
	{"SELECT a, b FROM t GROUP BY y HAVING a > b", false},
	{"SELECT a FROM t GROUP BY x ORDER BY _time, x", true},
	{"SELECT a FROM t GROUP BY y ORDER BY y DESC, _time LIMIT 2", true},
	{"SELECT a FROM t GROUP BY x, CONCAT('-', x, y) AS xy", false},
	{"SELECT a FROM t GROUP BY CROSSTAB(y)", false},
	{"SELECT a FROM t GROUP BY x, CROSSTAB(y)", false},
	{"SELECT a FROM t WHERE x IN (SELECT x FROM t HAVING a > 5) GROUP BY y", false},
	{"SELECT a FROM (SELECT a FROM t GROUP BY x, y) GROUP BY x", false},
	{"SELECT a FROM t WHERE y = 1 AND x <> 3 GROUP BY x", false},
	{"SELECT a FROM t GROUP BY x, y ORDER BY x, y, _time LIMIT 1, 2", true},
	{"SELECT a FROM t GROUP BY y ORDER BY y, _time LIMIT 1, 1", true},
	{"SELECT a, b FROM t GROUP BY x HAVING a > b ORDER BY x DESC, _time LIMIT 1", true},
	{"SELECT a FROM t WHERE x IN (SELECT x FROM t WHERE y = 1) GROUP BY x, y", false},
	{"SELECT a FROM (SELECT a FROM (SELECT a FROM t GROUP BY x, y) GROUP BY x, y) GROUP BY y", false},
	{"SELECT a FROM (SELECT a FROM (SELECT a, b FROM t GROUP BY x, y) GROUP BY x) GROUP BY x", false},
	{"SELECT a FROM (SELECT a FROM t GROUP BY x, y) GROUP BY y", false},
	// two output fields with the same expression (the leader's input and output columns coincide)
	{"SELECT a, a AS total FROM t GROUP BY y", false},
	// a unary math field re-aggregated on the leader
	{"SELECT LOG2(a) AS l FROM t GROUP BY y", false},
	// LIMIT two FROM-levels deep
	{"SELECT a FROM (SELECT a FROM (SELECT a FROM t GROUP BY x, y ORDER BY x, y, _time LIMIT 1) GROUP BY x, y) GROUP BY x, y", false},
	// an IN-sub-query inside a FROM-sub-query
	{"SELECT a FROM (SELECT a FROM t WHERE y IN (SELECT y FROM t WHERE x = 1) GROUP BY x, y)", false},
	// GROUP BY inside a WHERE sub-query of a query that is re-grouped on the leader
	{"SELECT a FROM t WHERE y IN (SELECT y FROM t GROUP BY y) GROUP BY x", false},
}

var zxPartitionKeys = [][]string{{"x"}, {"x", "y"}, nil}

//zx:harness prop=C11+C10 id=C11.V tier=quick mode=real shard=q:32,keys:3 R=2 NP=2 quick.ny=2 quick.nperiods=1 paths=20000 thorough.R=3 thorough.NP=3 thorough.ny=3 thorough.nperiods=2 thorough.shard=q:32,keys:3,np:3
func zxC11Validate() {
	q := zxCorpus[vrtShape("q", len(zxCorpus))]
	partitionBy := zxPartitionKeys[vrtShape("keys", len(zxPartitionKeys))]
	N := vrtShape("np", vrtParam("NP", 2)) + 1
	periods := vrtShape("periods", vrtParam("nperiods", 2)) + 3 - vrtParam("nperiods", 2)
	rows := zxInRows(vrtParam("R", 2), periods)
	// local
	whole := zxTableOf("t", rows, periods, partitionBy)
	localPlan, localErr := Plan(q.sql, zxOpts(map[string]*zxTable{"t": whole}))
	// cluster: a key-respecting split (any function of the partition-key values; all dims when the
	// table has no partition keys)
	parts := make([][]zxInRow, N)
	for _, r := range rows {
		h := 0
		for _, k := range partitionBy {
			switch k {
			case "x":
				h = h*7 + r.x
			case "y":
				h = h*7 + r.y
			}
		}
		if len(partitionBy) == 0 {
			h = r.x*7 + r.y
		}
		parts[h%N] = append(parts[h%N], r)
	}
	opts := zxOpts(map[string]*zxTable{"t": whole})
	opts.QueryCluster = func(ctx context.Context, sqlString string, isSubQuery bool, subQueryResults [][]interface{}, unflat bool, onFields core.OnFields, onRow core.OnRow, onFlatRow core.OnFlatRow) (interface{}, error) {
		for p := 0; p < N; p++ {
			popts := zxOpts(map[string]*zxTable{"t": zxTableOf("t", parts[p], periods, partitionBy)})
			popts.IsSubQuery = isSubQuery
			popts.SubQueryResults = subQueryResults
			plan, err := Plan(sqlString, popts)
			if err != nil {
				return nil, err
			}
			of := onFields
			if p > 0 {
				of = core.FieldsIgnored
			}
			if unflat {
				_, err = core.UnflattenOptimized(plan).Iterate(ctx, of, onRow)
			} else {
				_, err = plan.Iterate(ctx, of, onFlatRow)
			}
			if err != nil {
				return nil, err
			}
		}
		return nil, nil
	}
	clusterPlan, clusterErr := Plan(q.sql, opts)
	vrtAssert((localErr == nil) == (clusterErr == nil), "the query plans for a cluster iff it plans locally: "+q.sql)
	if localErr != nil || clusterErr != nil {
		vrtReach("C11.V")
		return
	}
	lrows, lnames, lerr := zxRun(localPlan)
	crows, cnames, cerr := zxRun(clusterPlan)
	vrtAssert((lerr == nil) == (cerr == nil), "the cluster plan fails iff the local plan fails: "+q.sql)
	if lerr == nil && cerr == nil {
		sameNames := len(lnames) == len(cnames)
		for i := 0; sameNames && i < len(lnames); i++ {
			sameNames = lnames[i] == cnames[i]
		}
		vrtAssert(sameNames, "same output fields from the cluster plan: "+q.sql)
		vrtAssert(len(lrows) == len(crows), "same number of rows from the cluster plan ("+zxItoa(N)+" partitions): "+q.sql)
		vrtAssert(zxSameRows(lrows, crows, q.ordered), "same rows from the cluster plan ("+zxItoa(N)+" partitions): "+q.sql)
	}
	vrtReach("C11.V")
}


// C10.G — a table whose own GROUP BY drops a dimension of the inbound points and that has no
// PARTITION BY: points are routed to partitions by the hash of all their raw dimensions (harness
// R), so the points (x=1, y=1) and (x=1, y=2) can live on different partitions and both belong to
// the table row {x:1}. A stand-alone node holds one row {x:1} with a = a1 + a2; the cluster must
// answer every query as that node does (partitions answered by the real local planner).
//
//zx:harness prop=C10+C06 id=C10.G tier=quick mode=real
func zxC10GroupByAllPushdown() {
	queries := []string{"SELECT * FROM u", "SELECT a FROM u GROUP BY *", "SELECT a FROM u GROUP BY x", "SELECT a FROM u GROUP BY _"}
	q := queries[vrtShape("q", len(queries))]
	fields := zxTableFields()
	a1, a2 := vrtFloat64("a1"), vrtFloat64("a2")
	vrtAssume(vrtAnd(vrtFinite(a1), vrtFinite(a2)))
	groupBy := []core.GroupBy{core.NewGroupBy("x", goexpr.Param("x"))}
	key := bytemap.New(map[string]interface{}{"x": 1})
	mk := func(pts float64, a float64) core.Vals {
		return core.Vals{zxSeqOf(fields[0].Expr, [3]float64{pts}, 1), zxSeqOf(fields[1].Expr, [3]float64{a}, 1), zxSeqOf(fields[2].Expr, [3]float64{0}, 1)}
	}
	tableOf := func(rows ...core.Vals) *zxTable {
		t := &zxTable{name: "u", fields: fields, groupBy: groupBy}
		for _, r := range rows {
			t.keys = append(t.keys, key)
			t.vals = append(t.vals, r)
		}
		return t
	}
	whole := tableOf(mk(2, a1+a2))
	parts := []*zxTable{tableOf(mk(1, a1)), tableOf(mk(1, a2))}
	localPlan, localErr := Plan(q, zxOpts(map[string]*zxTable{"u": whole}))
	opts := zxOpts(map[string]*zxTable{"u": whole})
	opts.QueryCluster = func(ctx context.Context, sqlString string, isSubQuery bool, subQueryResults [][]interface{}, unflat bool, onFields core.OnFields, onRow core.OnRow, onFlatRow core.OnFlatRow) (interface{}, error) {
		for p, part := range parts {
			popts := zxOpts(map[string]*zxTable{"u": part})
			popts.IsSubQuery = isSubQuery
			popts.SubQueryResults = subQueryResults
			plan, err := Plan(sqlString, popts)
			if err != nil {
				return nil, err
			}
			of := onFields
			if p > 0 {
				of = core.FieldsIgnored
			}
			if unflat {
				_, err = core.UnflattenOptimized(plan).Iterate(ctx, of, onRow)
			} else {
				_, err = plan.Iterate(ctx, of, onFlatRow)
			}
			if err != nil {
				return nil, err
			}
		}
		return nil, nil
	}
	clusterPlan, clusterErr := Plan(q, opts)
	vrtAssert(localErr == nil && clusterErr == nil, "the query plans locally and for a cluster: "+q)
	if localErr != nil || clusterErr != nil {
		return
	}
	lrows, _, lerr := zxRun(localPlan)
	crows, _, cerr := zxRun(clusterPlan)
	vrtAssert(lerr == nil && cerr == nil, "both plans run: "+q)
	vrtAssert(len(lrows) == len(crows), "the cluster returns as many rows as the stand-alone node ("+zxItoa(len(lrows))+"): "+q)
	vrtAssert(zxSameRows(lrows, crows, false), "the cluster returns the stand-alone node's rows: "+q)
	vrtReach("C10.G")
}

// ---- C08 -------------------------------------------------------------------------------------

type zxHavingCase struct {
	with, without string
	pred          func(vals []float64) bool // on the reported values of the HAVING-free query
}

var zxHavingCases = []zxHavingCase{
	{"SELECT a FROM t GROUP BY x HAVING a > 5", "SELECT a FROM t GROUP BY x", func(v []float64) bool { return v[0] > 5 }},
	{"SELECT a, b FROM t GROUP BY y HAVING a >= b", "SELECT a, b FROM t GROUP BY y", func(v []float64) bool { return v[0] >= v[1] }},
	{"SELECT a, b FROM t GROUP BY x, y HAVING a + b < 10 AND b <> 3", "SELECT a, b FROM t GROUP BY x, y", func(v []float64) bool { return v[0]+v[1] < 10 && v[1] != 3 }},
	{"SELECT a FROM t GROUP BY _ HAVING a = 4 OR a > 100", "SELECT a FROM t GROUP BY _", func(v []float64) bool { return v[0] == 4 || v[0] > 100 }},
	{"SELECT a FROM t GROUP BY x, period(2s) HAVING a <= 0", "SELECT a FROM t GROUP BY x, period(2s)", func(v []float64) bool { return v[0] <= 0 }},
	{"SELECT AVG(a) AS m, b FROM t GROUP BY y HAVING m > b", "SELECT AVG(a) AS m, b FROM t GROUP BY y", func(v []float64) bool { return v[0] > v[1] }},
	{"SELECT * FROM t HAVING a > b", "SELECT * FROM t", func(v []float64) bool { return v[1] > v[2] }},
}

// C08.H — HAVING keeps exactly the rows of the HAVING-free query whose reported values satisfy
// the predicate, with the same values and without the helper column.
//
//zx:harness prop=C08 id=C08.H tier=quick mode=real shard=case:7,x0:2 R=2 quick.ny=2 quick.nperiods=1 thorough.R=3 thorough.ny=2 thorough.nperiods=2 thorough.shard=case:7,x0:2,y0:2
func zxC08Having() {
	c := zxHavingCases[vrtShape("case", len(zxHavingCases))]
	periods := vrtShape("periods", vrtParam("nperiods", 2)) + 3 - vrtParam("nperiods", 2)
	rows := zxInRows(vrtParam("R", 2), periods)
	tbl := zxTableOf("t", rows, periods, []string{"x"})
	pw, err1 := Plan(c.with, zxOpts(map[string]*zxTable{"t": tbl}))
	po, err2 := Plan(c.without, zxOpts(map[string]*zxTable{"t": tbl}))
	vrtAssert(err1 == nil && err2 == nil, "both queries plan: "+c.with)
	if err1 != nil || err2 != nil {
		return
	}
	got, gnames, gerr := zxRun(pw)
	all, anames, aerr := zxRun(po)
	vrtAssert(gerr == nil && aerr == nil, "both queries run")
	sameNames := len(gnames) == len(anames)
	for i := 0; sameNames && i < len(gnames); i++ {
		sameNames = gnames[i] == anames[i]
	}
	vrtAssert(sameNames, "HAVING does not expose its helper column: "+c.with)
	var want []zxOutRow
	for _, r := range all {
		if c.pred(r.vals) { // forks on the comparison, like the database does
			want = append(want, r)
		}
	}
	vrtAssert(len(got) == len(want), "HAVING returns exactly the rows that satisfy it: "+c.with)
	vrtAssert(zxSameRows(want, got, false), "HAVING returns the satisfying rows unchanged: "+c.with) // no ORDER BY: the order is not part of the result
	vrtReach("C08.H")
}

// C08.G — HAVING over a series with holes: key {x:1} has field a in the newest and the oldest of
// three periods and nothing in between, field b only in the middle period (symbolic values).
// Every row a query with HAVING returns is a row of the HAVING-free query (same period, key and
// values): HAVING filters rows, it does not create any — neither for a period in which nothing
// was recorded nor for one in which only an unselected operand of the predicate was.
//
//zx:harness prop=C08 id=C08.G tier=quick mode=real
func zxC08HavingHoles() {
	cases := []struct{ with, without string }{
		{"SELECT a FROM t GROUP BY x HAVING a < 5", "SELECT a FROM t GROUP BY x"},
		{"SELECT a FROM t GROUP BY x HAVING b > 5", "SELECT a FROM t GROUP BY x"},
		{"SELECT a, b FROM t GROUP BY x HAVING a <= b", "SELECT a, b FROM t GROUP BY x"},
		{"SELECT a FROM t HAVING a = 0", "SELECT a FROM t"},
	}
	c := cases[vrtShape("case", len(cases))]
	fields := zxTableFields()
	mk := func(e expr.Expr, at map[int]float64) encoding.Sequence {
		seq := encoding.NewSequence(e.EncodedWidth(), 3)
		seq.SetUntil(zxUntil)
		for p, v := range at {
			seq.UpdateValueAt(p, e, expr.FloatParams(v), nil)
		}
		return seq
	}
	a0, a2, b1 := vrtFloat64("a0"), vrtFloat64("a2"), vrtFloat64("b1")
	vrtAssume(vrtAnd(vrtFinite(a0), vrtAnd(vrtFinite(a2), vrtFinite(b1))))
	tbl := &zxTable{name: "t", fields: fields, partitionBy: []string{"x"}}
	tbl.keys = append(tbl.keys, bytemap.New(map[string]interface{}{"x": 1}))
	tbl.vals = append(tbl.vals, core.Vals{mk(fields[0].Expr, map[int]float64{0: 1, 1: 1, 2: 1}), mk(fields[1].Expr, map[int]float64{0: a0, 2: a2}), mk(fields[2].Expr, map[int]float64{1: b1})})
	pw, err1 := Plan(c.with, zxOpts(map[string]*zxTable{"t": tbl}))
	po, err2 := Plan(c.without, zxOpts(map[string]*zxTable{"t": tbl}))
	vrtAssert(err1 == nil && err2 == nil, "both queries plan: "+c.with)
	if err1 != nil || err2 != nil {
		return
	}
	got, _, gerr := zxRun(pw)
	all, _, aerr := zxRun(po)
	vrtAssert(gerr == nil && aerr == nil, "both queries run")
	for _, g := range got {
		found := false
		for _, r := range all {
			if r.ts == g.ts && r.key == g.key && len(r.vals) == len(g.vals) {
				same := true
				for i := range r.vals {
					same = vrtAnd(same, vrtFloatEq(r.vals[i], g.vals[i]))
				}
				found = found || same
			}
		}
		vrtAssert(found, "every row returned with HAVING is a row of the HAVING-free query: "+c.with)
	}
	vrtAssert(len(got) <= len(all), "HAVING never returns more rows than the HAVING-free query: "+c.with)
	vrtReach("C08.G")
}

type zxWhereCase struct {
	sql  string
	pred func(r zxInRow) bool
}

var zxWhereCases = []zxWhereCase{
	{"SELECT a FROM t WHERE x = 1 GROUP BY y", func(r zxInRow) bool { return r.x == 1 }},
	{"SELECT a, b FROM t WHERE x <> 1", func(r zxInRow) bool { return r.x != 1 }},
	{"SELECT a FROM t WHERE y = 1 GROUP BY x", func(r zxInRow) bool { return r.y == 1 }},
	{"SELECT a FROM t WHERE y IS NULL GROUP BY x", func(r zxInRow) bool { return r.y == 0 }},
	{"SELECT a FROM t WHERE y IS NOT NULL AND x < 2 GROUP BY _", func(r zxInRow) bool { return r.y != 0 && r.x < 2 }},
	{"SELECT a FROM t WHERE x IN (2, 3) OR y > 1 GROUP BY x, y", func(r zxInRow) bool { return r.x == 2 || r.x == 3 || r.y > 1 }},
	{"SELECT a FROM t WHERE NOT (x = 2) GROUP BY y, period(2s)", func(r zxInRow) bool { return r.x != 2 }},
	{"SELECT a FROM t WHERE y IS NULL OR y = 2", func(r zxInRow) bool { return r.y == 0 || r.y == 2 }},
	{"SELECT a, b FROM t WHERE x IS NULL OR x = 2 GROUP BY y", func(r zxInRow) bool { return r.x == 0 || r.x == 2 }},
}

func zxStripWhere(sql string) string {
	i, j := -1, len(sql)
	for k := 0; k+7 <= len(sql); k++ {
		if sql[k:k+7] == " WHERE " {
			i = k
		}
	}
	for k := 0; k+10 <= len(sql); k++ {
		if sql[k:k+10] == " GROUP BY " {
			j = k
		}
	}
	if i < 0 {
		return sql
	}
	return sql[:i] + sql[j:]
}

// C08.W — WHERE over dimensions returns what the same query without WHERE returns when only the
// rows whose dimensions satisfy the predicate are in the table.
//
//zx:harness prop=C08 id=C08.W tier=quick mode=real shard=case:9,x0:3 R=2 xabsent=1 quick.ny=3 quick.nperiods=1 thorough.R=3 thorough.ny=3 thorough.nperiods=2 thorough.shard=case:9,x0:3,y0:3
func zxC08Where() {
	c := zxWhereCases[vrtShape("case", len(zxWhereCases))]
	periods := vrtShape("periods", vrtParam("nperiods", 2)) + 3 - vrtParam("nperiods", 2)
	rows := zxInRows(vrtParam("R", 3), periods)
	var matching []zxInRow
	for _, r := range rows {
		if c.pred(r) {
			matching = append(matching, r)
		}
	}
	full := zxTableOf("t", rows, periods, []string{"x"})
	only := zxTableOf("t", matching, periods, []string{"x"})
	pw, err1 := Plan(c.sql, zxOpts(map[string]*zxTable{"t": full}))
	po, err2 := Plan(zxStripWhere(c.sql), zxOpts(map[string]*zxTable{"t": only}))
	vrtAssert(err1 == nil && err2 == nil, "both queries plan: "+c.sql)
	if err1 != nil || err2 != nil {
		return
	}
	got, _, gerr := zxRun(pw)
	want, _, werr := zxRun(po)
	vrtAssert(gerr == nil && werr == nil, "both queries run")
	vrtAssert(len(got) == len(want), "WHERE returns as many rows as the unfiltered query over the matching rows: "+c.sql)
	vrtAssert(zxSameRows(want, got, false), "WHERE returns the rows of the unfiltered query over the matching rows: "+c.sql)
	vrtReach("C08.W")
}


// ---- C06.Q -----------------------------------------------------------------------------------

type zxGroupCase struct {
	sql    string
	byX    bool
	byY    bool
	period int // in table periods (seconds)
	fields int // 1: a only, 2: a and b, 3: _points, a, b
}

var zxGroupCases = []zxGroupCase{
	{"SELECT * FROM t GROUP BY *, period(2s)", true, true, 2, 3},
	{"SELECT a FROM t GROUP BY x, period(2s)", true, false, 2, 1},
	{"SELECT a, b FROM t GROUP BY y, period(2s)", false, true, 2, 2},
	{"SELECT a FROM t GROUP BY _, period(2s)", false, false, 2, 1},
	{"SELECT a FROM t GROUP BY period(2s)", true, true, 2, 1},
	{"SELECT a, b FROM t GROUP BY x, y, period(3s)", true, true, 3, 2},
	{"SELECT a FROM t GROUP BY x", true, false, 1, 1},
	{"SELECT a, b FROM t GROUP BY _", false, false, 1, 2},
	{"SELECT * FROM t GROUP BY *, period(3s)", true, true, 3, 3},
	{"SELECT a FROM t GROUP BY x, period(1s)", true, false, 1, 1},
	// over a FROM-sub-query: the wildcard stands for the sub-query's fields, and an outer
	// expression over a sub-query field is applied once
	{"SELECT * FROM (SELECT a, b FROM t GROUP BY x, y) GROUP BY x, period(2s)", true, false, 2, 2},
	{"SELECT a * 2 AS a FROM (SELECT a FROM t GROUP BY x, y) GROUP BY x", true, false, 1, 4},
	{"SELECT a * 2 AS z FROM (SELECT a FROM t GROUP BY x, y) GROUP BY x", true, false, 1, 4},
}

// C06.Q — coarser grouping through the real planner: grouping by a subset of the dims and/or by a
// period that is a multiple of the table resolution returns, per projected key and per coarse
// period T (anchored at the table's until), the sum of the raw values whose native period ends in
// (T-P, T]; periods are disjoint and every stored value inside the window lands in exactly one
// output row (reference computed in the harness from the raw rows).
//
//zx:harness prop=C06+C08 id=C06.Q tier=quick mode=real shard=case:13,x0:2 R=2 quick.ny=2 thorough.R=3 thorough.ny=3 thorough.shard=case:13,x0:2,y0:3
func zxC06Query() {
	c := zxGroupCases[vrtShape("case", len(zxGroupCases))]
	periods := 3
	rows := zxInRows(vrtParam("R", 2), periods)
	tbl := zxTableOf("t", rows, periods, []string{"x"})
	plan, err := Plan(c.sql, zxOpts(map[string]*zxTable{"t": tbl}))
	vrtAssert(err == nil, "the query plans: "+c.sql)
	if err != nil {
		return
	}
	got, _, gerr := zxRun(plan)
	vrtAssert(gerr == nil, "the query runs: "+c.sql)
	// reference
	type cell struct {
		ts   int64
		key  string
		vals []float64
	}
	var want []zxOutRow
	for _, r := range rows {
		m := map[string]interface{}{}
		if c.byX {
			m["x"] = r.x
		}
		if c.byY && r.y != 0 {
			m["y"] = r.y
		}
		key := string(bytemap.New(m))
		for p := 0; p < periods; p++ {
			T := zxUntil.Add(-time.Duration((p/c.period)*c.period) * time.Second).UnixNano()
			var vals []float64
			switch c.fields {
			case 1:
				vals = []float64{r.a[p]}
			case 2:
				vals = []float64{r.a[p], r.b[p]}
			case 3:
				vals = []float64{1, r.a[p], r.b[p]}
			case 4:
				vals = []float64{2 * r.a[p]}
			}
			found := false
			for i := range want {
				if want[i].ts == T && want[i].key == key {
					for j := range vals {
						want[i].vals[j] += vals[j]
					}
					found = true
				}
			}
			if !found {
				want = append(want, zxOutRow{T, key, vals})
			}
		}
	}
	vrtAssert(len(got) == len(want), "one output row per (projected key, coarse period): "+c.sql)
	vrtAssert(zxSameRows(want, got, false), "each output row is the aggregate of the raw values of its key and coarse period: "+c.sql)
	vrtReach("C06.Q")
}


// ---- C08.I -----------------------------------------------------------------------------------

type zxInCase struct {
	sub  string
	pred func(r []zxInRow, x int, p int) bool // does x qualify through period p of the sub-query result?
}

func zxSumFor(rows []zxInRow, x, p int, f func(zxInRow) [3]float64, only func(zxInRow) bool) (float64, bool) {
	s, any := 0.0, false
	for _, r := range rows {
		if r.x == x && (only == nil || only(r)) {
			s += f(r)[p]
			any = true
		}
	}
	return s, any
}

func zxA(r zxInRow) [3]float64 { return r.a }
func zxB(r zxInRow) [3]float64 { return r.b }

var zxInCases = []zxInCase{
	{"SELECT x FROM t GROUP BY x HAVING a > 5", func(rows []zxInRow, x, p int) bool {
		a, any := zxSumFor(rows, x, p, zxA, nil)
		return any && a > 5
	}},
	{"SELECT x FROM t GROUP BY x HAVING b >= a", func(rows []zxInRow, x, p int) bool {
		a, any := zxSumFor(rows, x, p, zxA, nil)
		b, _ := zxSumFor(rows, x, p, zxB, nil)
		return any && b >= a
	}},
	{"SELECT x FROM t WHERE y = 1 GROUP BY x", func(rows []zxInRow, x, p int) bool {
		_, any := zxSumFor(rows, x, p, zxA, func(r zxInRow) bool { return r.y == 1 })
		return any
	}},
	{"SELECT x FROM t WHERE y = 1 GROUP BY x HAVING a < 0", func(rows []zxInRow, x, p int) bool {
		a, any := zxSumFor(rows, x, p, zxA, func(r zxInRow) bool { return r.y == 1 })
		return any && a < 0
	}},
}

// C08.I — `dim IN (SELECT dim ...)` behaves like IN over the literal list of distinct values the
// sub-query returns (the list is computed in the harness from the raw rows and the sub-query's
// WHERE/HAVING meaning, then spliced into the outer query as literals).
//
//zx:harness prop=C08 id=C08.I tier=quick mode=real shard=case:4,x0:2 R=3 quick.ny=2 quick.nperiods=1 thorough.R=4 thorough.ny=3 thorough.shard=case:4,x0:2,y0:3
func zxC08InSubquery() {
	c := zxInCases[vrtShape("case", len(zxInCases))]
	periods := 1
	rows := zxInRows(vrtParam("R", 3), periods)
	tbl := zxTableOf("t", rows, periods, []string{"x"})
	list := ""
	for x := 1; x <= 2; x++ {
		ok := false
		for p := 0; p < periods; p++ {
			if c.pred(rows, x, p) {
				ok = true
			}
		}
		if ok {
			if list != "" {
				list += ", "
			}
			list += zxItoa(x)
		}
	}
	if list == "" {
		list = "-999"
	}
	outer := "SELECT a, b FROM t WHERE x IN (%s) GROUP BY y"
	withSub := "SELECT a, b FROM t WHERE x IN (" + c.sub + ") GROUP BY y"
	withList := "SELECT a, b FROM t WHERE x IN (" + list + ") GROUP BY y"
	_ = outer
	p1, err1 := Plan(withSub, zxOpts(map[string]*zxTable{"t": tbl}))
	p2, err2 := Plan(withList, zxOpts(map[string]*zxTable{"t": tbl}))
	vrtAssert(err1 == nil && err2 == nil, "both forms plan: "+withSub)
	if err1 != nil || err2 != nil {
		return
	}
	got, _, gerr := zxRun(p1)
	want, _, werr := zxRun(p2)
	vrtAssert(gerr == nil && werr == nil, "both forms run")
	vrtAssert(len(got) == len(want), "IN (sub-query) returns as many rows as IN ("+list+"): "+c.sub)
	vrtAssert(zxSameRows(want, got, false), "IN (sub-query) returns the rows of IN ("+list+"): "+c.sub)
	vrtReach("C08.I")
}

// ---- C07.Q -----------------------------------------------------------------------------------

// C07.Q — time ranges through the real planner with an unaligned database clock: with the clock
// at now = until − frac (symbolic 0 <= frac < 1 resolution), ASOF/UNTIL given relative to the
// clock or as absolute instants select exactly the stored periods (T−res, T] with
// T−res >= asOf_raw and T−res < until_raw, i.e. every period inside the window obtained by
// rounding both bounds up to the resolution, and no other; values are those of the unbounded
// query.
//
//zx:harness prop=C07 id=C07.Q tier=quick mode=real shard=case:8
func zxC07TimeRange() {
	frac := time.Duration(vrtRange("frac", 0, int64(time.Second)-1))
	now := zxUntil.Add(-frac) // RoundTimeUp(now) = zxUntil, the table's until
	abs := func(d time.Duration) string { return zxUntil.Add(d).UTC().Format(time.RFC3339) }
	type trCase struct {
		clause           string
		asOfRaw, untilRaw time.Time
		hasUntil         bool
	}
	cases := []trCase{
		{"ASOF '-1500ms'", now.Add(-1500 * time.Millisecond), time.Time{}, false},
		{"ASOF '-2s'", now.Add(-2 * time.Second), time.Time{}, false},
		{"ASOF '-2500ms' UNTIL '-1s'", now.Add(-2500 * time.Millisecond), now.Add(-time.Second), true},
		{"ASOF '-3s' UNTIL '-1200ms'", now.Add(-3 * time.Second), now.Add(-1200 * time.Millisecond), true},
		{"ASOF '" + abs(-3*time.Second) + "'", zxUntil.Add(-3 * time.Second), time.Time{}, false},
		{"ASOF '" + abs(-3*time.Second) + "' UNTIL '-1s'", zxUntil.Add(-3 * time.Second), now.Add(-time.Second), true},
		{"ASOF '-2500ms' UNTIL '" + abs(-1*time.Second) + "'", now.Add(-2500 * time.Millisecond), zxUntil.Add(-time.Second), true},
		{"ASOF '" + abs(-2*time.Second) + "' UNTIL '" + abs(-1*time.Second) + "'", zxUntil.Add(-2 * time.Second), zxUntil.Add(-time.Second), true},
	}
	c := cases[vrtShape("case", len(cases))]
	periods := 3
	rows := zxInRows(1, periods)
	tbl := zxTableOf("t", rows, periods, []string{"x"})
	opts := zxOpts(map[string]*zxTable{"t": tbl})
	opts.Now = func(table string) time.Time { return now }
	sqlString := "SELECT a FROM t " + c.clause + " GROUP BY x"
	plan, err := Plan(sqlString, opts)
	vrtAssert(err == nil, "the query plans: "+sqlString)
	if err != nil {
		return
	}
	got, _, gerr := zxRun(plan)
	vrtAssert(gerr == nil, "the query runs: "+sqlString)
	var want []zxOutRow
	key := string(bytemap.New(map[string]interface{}{"x": rows[0].x}))
	for p := periods - 1; p >= 0; p-- {
		T := zxUntil.Add(-time.Duration(p) * time.Second)
		start := T.Add(-time.Second)
		inside := !start.Before(c.asOfRaw) && (!c.hasUntil || start.Before(c.untilRaw))
		if inside {
			want = append(want, zxOutRow{T.UnixNano(), key, []float64{rows[0].a[p]}})
		}
	}
	if len(want) == 0 {
		return // an empty window is widened to one period by design (group.GetAsOf)
	}
	vrtAssert(len(got) == len(want), "exactly the periods inside the window are returned: "+sqlString)
	vrtAssert(zxSameRows(want, got, false), "the returned periods carry the values of the unbounded query: "+sqlString)
	vrtReach("C07.Q")
}

// ---- C09.P -----------------------------------------------------------------------------------

// C09.P — ORDER BY / LIMIT / OFFSET through the real planner: "ORDER BY k LIMIT n OFFSET m"
// returns exactly rows m .. m+n-1 of the ordered result of the same query without LIMIT, for
// n, m >= 0 including 0 and values beyond the row count; never more, never rows outside it.
//
//zx:harness prop=C09 id=C09.P tier=quick mode=real shard=n:4,m:4 R=3 quick.ny=2 thorough.R=4 thorough.ny=3 thorough.shard=n:4,m:4,x0:2
func zxC09PlannerLimit() {
	rows := zxInRows(vrtParam("R", 3), 1)
	tbl := zxTableOf("t", rows, 1, []string{"x"})
	base := "SELECT a FROM t GROUP BY x, y ORDER BY x DESC, y, _time"
	n := vrtShape("n", 4)     // LIMIT 0..3
	m := vrtShape("m", 4) - 1 // -1: no OFFSET, else OFFSET 0..2
	q := base + " LIMIT " + zxItoa(n)
	if m >= 0 {
		q = base + " LIMIT " + zxItoa(m) + ", " + zxItoa(n)
	}
	pa, err1 := Plan(base, zxOpts(map[string]*zxTable{"t": tbl}))
	pl, err2 := Plan(q, zxOpts(map[string]*zxTable{"t": tbl}))
	vrtAssert(err1 == nil && err2 == nil, "both queries plan: "+q)
	if err1 != nil || err2 != nil {
		return
	}
	all, _, aerr := zxRun(pa)
	got, _, gerr := zxRun(pl)
	vrtAssert(aerr == nil && gerr == nil, "both queries run")
	lo := m
	if lo < 0 {
		lo = 0
	}
	if lo > len(all) {
		lo = len(all)
	}
	hi := lo + n
	if hi > len(all) {
		hi = len(all)
	}
	want := all[lo:hi]
	vrtAssert(len(got) == len(want), "LIMIT "+zxItoa(n)+" OFFSET "+zxItoa(lo)+" returns "+zxItoa(len(want))+" of "+zxItoa(len(all))+" rows")
	vrtAssert(zxSameRows(want, got, true), "LIMIT/OFFSET return exactly that slice of the ordered result: "+q)
	vrtReach("C09.P")
}
