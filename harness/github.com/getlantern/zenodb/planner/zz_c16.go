package planner

// C16.A — malformed or unusual SQL makes sql.Parse / sql.TableFor / planner.Plan return an error
// or a plan, never a Go panic (DESIGN §5 C16.A). The statements are assembled from clause
// fragments chosen by shape variables; the honest scope is "bounded-exhaustive over these shapes",
// one path per statement, each string replayed natively.

import (
	"context"

	"github.com/getlantern/zenodb/core"
	"github.com/getlantern/zenodb/sql"
)

var zxNonSelect = []string{
	"DELETE FROM t WHERE a = 1",
	"INSERT INTO t (a) VALUES (1)",
	"UPDATE t SET a = 1",
	"SELECT a FROM t UNION SELECT a FROM u",
	"SHOW TABLES",
	"SET a = 1",
	"CREATE TABLE t (a int)",
	"DROP TABLE t",
	"ALTER TABLE t RENAME u",
	"(SELECT a FROM t)",
	"SELECT",
	"",
	"SELECT a FROM",
	"SELECT * FROM t WHERE",
	"SELECT * FROM t GROUP BY",
	"SELECT * FROM t ORDER BY",
	"SELECT * FROM t LIMIT",
	"select 1",
	"SELECT 1 FROM dual",
}

var zxSelectLists = []string{
	"*", "a", "a, b", "SUM(a) AS a", "SUM(a)", "AVG(a) AS x", "AVG(a, b) AS x", "WAVG(a, b) AS x", "WAVG(a) AS x", "MIN(a) AS a, MAX(b) AS b",
	"COUNT(a) AS c", "COUNT(*) AS c", "COUNT(DISTINCT a) AS c", "SUM(*) AS s", "SUM() AS s", "SUM(a, b) AS s",
	"IF(d = 'x', SUM(a)) AS x", "IF(SUM(a)) AS x", "IF(d, SUM(a), 3) AS x", "IF(1, 2) AS x",
	"BOUNDED(a, 1, 2) AS x", "BOUNDED(a) AS x", "BOUNDED(a, 'lo', 2) AS x", "SUM(BOUNDED(a, 1, 2)) AS x",
	"PERCENTILE(a, 99, 0, 100, 2) AS p", "PERCENTILE(a) AS p", "PERCENTILE(a, 99) AS p", "PERCENTILE(a, 99, 0) AS p", "PERCENTILE(a, 99, 0, 100) AS p", "PERCENTILE(a, 99, 0, 100, 2, 7) AS p", "PERCENTILE(a, 99, 0, 100, 2) AS p, PERCENTILE(p, 50) AS q", "PERCENTILE(a, 99, 0, 100, 2) AS p, PERCENTILE(p, 50, 1) AS q", "PERCENTILE(a, 'x', 0, 100, 2) AS p", "PERCENTILE(p, 50) AS q",
	"SHIFT(SUM(a), '-1h') AS s", "SHIFT(SUM(a)) AS s", "SHIFT(SUM(a), 5) AS s", "SHIFT(SUM(a), 'zz') AS s",
	"CROSSHIFT(SUM(a), '-1h', '1h') AS s", "CROSSHIFT(SUM(a)) AS s", "CROSSHIFT(SUM(a), 'x', 'y') AS s", "CROSSHIFT(SUM(a), '-1h', '0s') AS s",
	"LN(SUM(a)) AS l", "LOG2(a) AS l", "LN() AS l", "FOO(a) AS f", "FOO() AS f",
	"SUM(a) / COUNT(b) AS r", "SUM(a) + 1 AS r", "1 + 1 AS r", "a + b AS r", "-a AS r", "(a) AS r", "a * (b + 1) / 2 AS r",
	"a < b AS r", "a = b AND a <> 1 OR b >= 2 AS r", "NOT a AS r",
	"1", "'x'", "'x' AS y", "_", "_points", "_having", "a AS _having", "NULL", "a.b", "t.a AS x", "a AS a, a AS a",
	"CASE WHEN a THEN 1 END AS c", "(SELECT 1) AS s", "LUA('s', k, v) AS l", "LUA('s', ARRAY(k), ARRAY(v)) AS l", "ANY(a) AS x", "LEN(a) AS x", "CONCAT(a, b) AS x",
	"SUM(a) AS x, x AS y", "AVG(SUM(a)) AS x", "SUM(AVG(a)) AS x", "SUM(IF(d = 'x', a)) AS x", "WAVG(a, SUM(b)) AS x",
}

var zxFroms = []string{"t", "T", "t AS x", "(SELECT a FROM t) AS s", "(SELECT * FROM t)", "(SELECT a FROM t GROUP BY d)", "t, u", "t JOIN u ON a = b", "unknown", "t.u", "(t)", "(SELECT a FROM (SELECT a FROM t))"}

var zxWheres = []string{
	"", "d = 'x'", "d <> 'x' AND e < 1 OR NOT f > 2", "d IN ('x', 'y')", "d NOT IN ('x')", "d IN (SELECT d FROM u)", "d IN (SELECT d, e FROM u)", "d IN (SELECT * FROM u)",
	"d IN (SELECT d FROM unknown)", "d LIKE 'x%'", "d NOT LIKE 'x'", "d IS NULL", "d IS NOT NULL", "d BETWEEN 1 AND 2", "d = e", "d", "1", "'x'", "1 = 1",
	"ANY(d) = 1", "ANY() = 1", "LEN(d) > 1", "LEN(d, e) > 1", "LEN() > 1", "SPLIT(d, ',', 1) = 'x'", "SPLIT(d) = 'x'", "SUBSTR(d, 1, 2) = 'x'", "SUBSTR(d, 'a') = 'x'",
	"LUA('s', k, v) = 1", "LUA('s', ARRAY(k), ARRAY(v)) = 1", "LUA('s') = 1", "HGET('h', d) = 'x'", "HGET(d) = 'x'", "SISMEMBER('s', d)", "CONCAT(d, e) = 'x'", "CONCAT() = 'x'",
	"FOO(d) = 1", "FOO() = 1", "d = (SELECT d FROM u)", "EXISTS (SELECT 1 FROM u)", "d = 1 + 2", "d = -1", "d = NULL", "d = TRUE", "ISP(d) = 'x'", "CITY(d, e) = 'x'",
	"RAND() < 0.5", "RAND(1) < 0.5", "d < SUM(a)", "SUM(a) > 1", "REPLACEALL(d, 'a', 'b') = 'x'", "DECODE(d, 'a', 'b') = 'x'", "DECODE(d) = 'x'", "ARRAY(d) = 'x'",
}

var zxGroupBys = []string{
	"", "d", "d, e", "*", "_", "*, d", "period('10s')", "period('1s')", "period('7s')", "period('0s')", "period('-5s')", "period(10)", "period()", "period('x')", "period('10s', '1s')",
	"d, period('10s')", "stride('10s')", "stride('7s')", "stride()", "stride(5)", "period('2s'), stride('10s')",
	"CROSSTAB(d)", "CROSSTAB(d, e)", "CROSSTAB()", "CROSSTABT(d)", "d, CROSSTAB(e)", "CROSSTAB(d), CROSSTAB(e)",
	"CONCAT('_', d, e) AS c", "LEN(d) AS l", "FOO(d) AS f", "1", "'x'", "d AS d2", "SUM(a)", "d + 1 AS x", "ANY(d, e) AS x",
}

var zxHavings = []string{"", "a > 1", "SUM(a) > 1", "SUM(a) > 1 AND AVG(b) < 2", "x > 1", "d = 'x'", "a", "1", "a > 'x'", "SUM(a) > (SELECT 1)", "FOO(a) > 1", "a > 1 OR"}

var zxOrderBys = []string{"", "a", "a DESC", "_time", "_time DESC, a", "d", "SUM(a)", "1", "unknown", "a + b", "a ASC, a DESC"}

var zxLimits = []string{"", "LIMIT 1", "LIMIT 0", "LIMIT 1, 2", "LIMIT 2 OFFSET 1", "LIMIT -1", "LIMIT 'x'", "LIMIT 1.5", "LIMIT a", "LIMIT 99999999999999999999"}

var zxTimeRanges = []string{"", "ASOF '-1h'", "ASOF '-1h' UNTIL '-1m'", "UNTIL '-1s'", "ASOF 'x'", "ASOF '2017-01-01T00:00:00Z'", "ASOF '2017-01-01T00:00:00Z' UNTIL '2016-01-01T00:00:00Z'", "ASOF '-99999999h'", "ASOF '1h'", "UNTIL 'zz'", "ASOF 5", "ASOF '-1h' UNTIL '-2h'"}

func zxBuildSQL() string {
	// dimension 0: non-select / broken statements; otherwise a SELECT where one or two clauses vary
	mode := vrtShape("mode", 9)
	sel, from, where, group, having, order, limit, tr := "SUM(a) AS a", "t", "", "", "", "", "", ""
	switch mode {
	case 0:
		return zxNonSelect[vrtShape("nonselect", len(zxNonSelect))]
	case 1:
		sel = zxSelectLists[vrtShape("sel", len(zxSelectLists))]
		group = []string{"", "d", "period('10s')", "CROSSTAB(e)"}[vrtShape("g4", 4)]
	case 2:
		from = zxFroms[vrtShape("from", len(zxFroms))]
		sel = []string{"*", "a", "SUM(a) AS a", "AVG(a) AS x, b"}[vrtShape("s4", 4)]
	case 3:
		where = zxWheres[vrtShape("where", len(zxWheres))]
		from = []string{"t", "(SELECT a FROM t) AS s"}[vrtShape("f2", 2)]
	case 4:
		group = zxGroupBys[vrtShape("group", len(zxGroupBys))]
		sel = []string{"*", "a", "SUM(a) AS a", "AVG(a) AS x, d"}[vrtShape("s4", 4)]
	case 5:
		having = zxHavings[vrtShape("having", len(zxHavings))]
		sel = []string{"*", "SUM(a) AS a", "AVG(a) AS x"}[vrtShape("s3", 3)]
		group = []string{"", "d"}[vrtShape("g2", 2)]
	case 6:
		order = zxOrderBys[vrtShape("order", len(zxOrderBys))]
		limit = zxLimits[vrtShape("limit", len(zxLimits))]
	case 7:
		tr = zxTimeRanges[vrtShape("tr", len(zxTimeRanges))]
		group = []string{"", "period('10s')", "d"}[vrtShape("g3", 3)]
	case 8:
		// everything at once
		sel = []string{"*", "SUM(a) AS a, AVG(b) AS x", "IF(d = 'x', SUM(a)) AS y"}[vrtShape("s3", 3)]
		from = []string{"t", "(SELECT a, b FROM t GROUP BY d) AS s"}[vrtShape("f2", 2)]
		where = []string{"", "d = 'x'", "d IN (SELECT d FROM u)"}[vrtShape("w3", 3)]
		group = []string{"", "d, period('10s')", "CROSSTAB(e)"}[vrtShape("g3", 3)]
		having = []string{"", "a > 1"}[vrtShape("h2", 2)]
		order = []string{"", "a DESC"}[vrtShape("o2", 2)]
		limit = []string{"", "LIMIT 1, 2"}[vrtShape("l2", 2)]
		tr = []string{"", "ASOF '-1h' UNTIL '-1m'"}[vrtShape("t2", 2)]
	}
	q := "SELECT " + sel + " FROM " + from
	if tr != "" {
		q += " " + tr
	}
	if where != "" {
		q += " WHERE " + where
	}
	if group != "" {
		q += " GROUP BY " + group
	}
	if having != "" {
		q += " HAVING " + having
	}
	if order != "" {
		q += " ORDER BY " + order
	}
	if limit != "" {
		q += " " + limit
	}
	return q
}

func zxNoPanic(what, sqlString string, f func()) {
	panicked := true
	defer func() {
		recover()
		vrtAssert(!panicked, what+" panics on: "+sqlString)
	}()
	f()
	panicked = false
}

//zx:harness prop=C16 id=C16.A tier=quick shard=mode:9 paths=100000
func zxC16SQLShapes() {
	sqlString := zxBuildSQL()
	tables := map[string]*zxTable{
		"t": {name: "t", fields: zxTableFields(), partitionBy: []string{"d"}},
		"u": {name: "u", fields: zxTableFields(), partitionBy: []string{"d"}},
	}
	zxNoPanic("sql.Parse", sqlString, func() { sql.Parse(sqlString) })
	zxNoPanic("sql.TableFor", sqlString, func() { sql.TableFor(sqlString) })
	zxNoPanic("planner.Plan (standalone)", sqlString, func() {
		plan, err := Plan(sqlString, zxOpts(tables))
		if err == nil && plan != nil {
			plan.Iterate(context.Background(), core.FieldsIgnored, func(row *core.FlatRow) (bool, error) { return true, nil })
		}
	})
	zxNoPanic("planner.Plan (cluster)", sqlString, func() {
		opts := zxOpts(tables)
		opts.QueryCluster = func(ctx context.Context, sqlString string, isSubQuery bool, subQueryResults [][]interface{}, unflat bool, onFields core.OnFields, onRow core.OnRow, onFlatRow core.OnFlatRow) (interface{}, error) {
			return nil, nil
		}
		Plan(sqlString, opts)
	})
	vrtReach("C16.A")
}
