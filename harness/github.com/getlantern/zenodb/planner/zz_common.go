package planner

import (
	"context"
	"strconv"
	"time"

	"github.com/getlantern/bytemap"
	"github.com/getlantern/zenodb/core"
	"github.com/getlantern/zenodb/encoding"
	"github.com/getlantern/zenodb/expr"
)

func zxItoa(i int) string { return strconv.Itoa(i) }

var (
	zxRes   = time.Second
	zxUntil = time.Unix(1500000000, 0)
	zxAsOf  = zxUntil.Add(-1000 * time.Second)
)

func zxTableFields() core.Fields {
	return core.Fields{core.PointsField, core.NewField("a", expr.SUM(expr.FIELD("a"))), core.NewField("b", expr.SUM(expr.FIELD("b")))}
}

// zxTable is a stub planner.Table holding rows (key, vals) for the given fields.
type zxTable struct {
	name        string
	fields      core.Fields
	partitionBy []string
	groupBy     []core.GroupBy // the table's own GROUP BY dimensions (nil: keeps every dimension)
	keys        []bytemap.ByteMap
	vals        []core.Vals
}

func (t *zxTable) GetGroupBy() []core.GroupBy {
	if t.groupBy != nil {
		return t.groupBy
	}
	return []core.GroupBy{}
}
func (t *zxTable) GetResolution() time.Duration { return zxRes }
func (t *zxTable) GetAsOf() time.Time           { return zxAsOf }
func (t *zxTable) GetUntil() time.Time          { return zxUntil }
func (t *zxTable) GetPartitionBy() []string     { return t.partitionBy }
func (t *zxTable) String() string               { return t.name }
func (t *zxTable) Iterate(ctx context.Context, onFields core.OnFields, onRow core.OnRow) (interface{}, error) {
	if err := onFields(t.fields); err != nil {
		return nil, err
	}
	for i := range t.keys {
		more, err := onRow(t.keys[i], t.vals[i])
		if err != nil {
			return nil, err
		}
		if !more {
			break
		}
	}
	return nil, nil
}

func zxOpts(tables map[string]*zxTable) *Opts {
	return &Opts{
		GetTable: func(table string, includedFields func(tableFields core.Fields) (core.Fields, error)) (Table, error) {
			t := tables[table]
			if t == nil {
				return nil, zxErr("table not found: " + table)
			}
			included, err := includedFields(t.fields)
			if err != nil {
				return nil, err
			}
			// project the stored columns onto the included fields, by field identity
			out := &zxTable{name: t.name, fields: included, partitionBy: t.partitionBy, groupBy: t.groupBy, keys: t.keys}
			for _, vs := range t.vals {
				var pv core.Vals
				for _, f := range included {
					for j, tf := range t.fields {
						if tf.Equals(f) {
							pv = append(pv, vs[j])
						}
					}
				}
				out.vals = append(out.vals, pv)
			}
			return out, nil
		},
		Now: func(table string) time.Time { return zxUntil },
	}
}

type zxErr string

func (e zxErr) Error() string { return string(e) }

var _ = encoding.Width64bits
