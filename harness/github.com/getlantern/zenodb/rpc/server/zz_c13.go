package rpcserver

// C13.R — leader side of a remote (follower-answered) partition query: the QueryClusterFN that
// HandleRemoteQueries registers returns an error whenever the follower's answer was incomplete —
// the follower flagged an error on any message (including its closing EndOfResults message, which
// is how a failed or timed-out follower query is reported), or the transport failed — so that
// queryCluster counts the partition as missing; a complete answer yields every row and no error.
// Run-to-block schedule (T3): the handler invocation is a recorded goroutine that runs when
// HandleRemoteQueries blocks waiting for the final error.

import (
	"context"
	"io"

	"github.com/getlantern/bytemap"
	"github.com/getlantern/golog"
	"github.com/getlantern/zenodb/core"
	"github.com/getlantern/zenodb/expr"
	"github.com/getlantern/zenodb/planner"
	"github.com/getlantern/zenodb/rpc"
	"google.golang.org/grpc/metadata"
)

type zxScriptStream struct {
	msgs    []*rpc.RemoteQueryResult
	pos     int
	failAt  int // RecvMsg returns a transport error at this position (-1: never)
	sent    int
}

func (s *zxScriptStream) SetHeader(metadata.MD) error  { return nil }
func (s *zxScriptStream) SendHeader(metadata.MD) error { return nil }
func (s *zxScriptStream) SetTrailer(metadata.MD)       {}
func (s *zxScriptStream) Context() context.Context     { return context.Background() }
func (s *zxScriptStream) SendMsg(m interface{}) error  { s.sent++; return nil }
func (s *zxScriptStream) RecvMsg(m interface{}) error {
	if s.pos == s.failAt {
		return io.ErrUnexpectedEOF
	}
	if s.pos >= len(s.msgs) {
		return io.EOF
	}
	*(m.(*rpc.RemoteQueryResult)) = *s.msgs[s.pos]
	s.pos++
	return nil
}

type zxHandlerDB struct {
	zxDB
	handler planner.QueryClusterFN
}

func (d *zxHandlerDB) RegisterQueryHandler(partition int, query planner.QueryClusterFN) {
	d.handler = query
}

//zx:harness prop=C13 id=C13.R tier=quick replay=interp K=2 thorough.K=4
func zxC13RemoteQuery() {
	K := vrtParam("K", 2)
	k := vrtShape("rows", K+1)
	fields := core.Fields{core.NewField("a", expr.FIELD("a"))}
	st := &zxScriptStream{failAt: -1}
	st.msgs = append(st.msgs, &rpc.RemoteQueryResult{Fields: fields})
	for i := 0; i < k; i++ {
		st.msgs = append(st.msgs, &rpc.RemoteQueryResult{Row: &core.FlatRow{TS: int64(i), Key: bytemap.New(map[string]interface{}{"k": i}), Values: []float64{1}}})
	}
	st.msgs = append(st.msgs, &rpc.RemoteQueryResult{EndOfResults: true})
	complete := true
	switch vrtShape("fault", 5) {
	case 4:
		// the follower failed before it could send its field list (unknown table, deadline
		// below a GROUP BY): its only message is the closing one, carrying the error
		st.msgs = []*rpc.RemoteQueryResult{{EndOfResults: true, Error: "table not found"}}
		complete = false
	case 1:
		// the follower's query failed: reported on the closing message
		st.msgs[len(st.msgs)-1].Error = "deadline exceeded"
		complete = false
	case 2:
		// an error flagged on a data message
		j := vrtShape("errAt", k+1) + 1
		st.msgs[j].Error = "follower failed"
		complete = false
	case 3:
		// transport failure before the closing message
		st.failAt = vrtShape("failAt", k+1) + 1
		complete = false
	}
	db := &zxHandlerDB{}
	s := &server{golog.LoggerFor("zx"), db, 1, ""}
	delivered := 0
	var herr error
	ran := false
	nilFields := false
	go func() {
		_, herr = db.handler(context.Background(), "SELECT * FROM t", false, nil, false, func(f core.Fields) error {
			if f == nil {
				nilFields = true
			}
			return nil
		},
			func(key bytemap.ByteMap, vals core.Vals) (bool, error) { return true, nil },
			func(row *core.FlatRow) (bool, error) { delivered++; return true, nil })
		ran = true
	}()
	s.HandleRemoteQueries(&rpc.RegisterQueryHandler{Partition: 0}, st)
	vrtAssert(ran, "the registered handler ran to completion")
	if ran {
		vrtAssert(vrtImplies(!complete, herr != nil), "an incomplete follower answer makes the partition handler return an error")
		// queryCluster reads a result without fields, key and row as the partition's final result:
		// a nil field list would make it count a failed partition as finished and successful
		vrtAssert(!nilFields, "the leader is never handed a nil field list")
		if complete {
			vrtAssert(herr == nil && delivered == k, "a complete follower answer yields every row and no error")
		}
	}
	vrtReach("C13.R")
}
