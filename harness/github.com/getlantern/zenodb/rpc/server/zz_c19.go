package rpcserver

// C19.R — the data-disclosing RPC handlers refuse callers without the configured password
// (DESIGN §5 C19.R). Real server.Query / Follow / HandleRemoteQueries run against a mock stream
// whose context carries real grpc metadata with 0–2 presented passwords; the configured and the
// presented passwords are symbolic strings (or empty); a mock DB asserts, at the moment it is
// touched, that the caller was entitled to reach it.

import (
	"context"
	"io"
	"time"

	"github.com/getlantern/bytemap"
	"github.com/getlantern/golog"
	"github.com/getlantern/wal"
	"github.com/getlantern/zenodb/common"
	"github.com/getlantern/zenodb/core"
	"github.com/getlantern/zenodb/planner"
	"github.com/getlantern/zenodb/rpc"
	"google.golang.org/grpc/metadata"
)

type zxStream struct{ ctx context.Context }

func (s *zxStream) SetHeader(metadata.MD) error  { return nil }
func (s *zxStream) SendHeader(metadata.MD) error { return nil }
func (s *zxStream) SetTrailer(metadata.MD)       {}
func (s *zxStream) Context() context.Context     { return s.ctx }
func (s *zxStream) SendMsg(m interface{}) error  { return nil }
func (s *zxStream) RecvMsg(m interface{}) error  { return io.EOF }

type zxDone struct{}

type zxDB struct {
	authorized bool
	what       string
	touched    bool
}

func (d *zxDB) touch(op string) {
	d.touched = true
	vrtAssert(d.authorized, "DB."+op+" is reached by handler "+d.what+" only when the configured password was presented")
	panic(zxDone{})
}
func (d *zxDB) InsertRaw(stream string, ts time.Time, dims bytemap.ByteMap, vals bytemap.ByteMap) error {
	return nil
}
func (d *zxDB) Query(sqlString string, isSubQuery bool, subQueryResults [][]interface{}, includeMemStore bool) (core.FlatRowSource, error) {
	d.touch("Query")
	return nil, nil
}
func (d *zxDB) Follow(f *common.Follow, cb func([]byte, wal.Offset) error) { d.touch("Follow") }
func (d *zxDB) RegisterQueryHandler(partition int, query planner.QueryClusterFN) {
	d.touch("RegisterQueryHandler")
}

// zxPassword: "" or a symbolic string of 1..3 bytes (length is a shape).
func zxPassword(name string, allowEmpty bool) string {
	lo := 1
	if allowEmpty {
		lo = 0
	}
	n := vrtShape("len"+name, 4-lo) + lo
	return vrtString(name, n)
}

//zx:harness prop=C19 id=C19.R tier=quick shard=handler:3 thorough.shard=handler:3,npresented:3
func zxC19RPC() {
	configured := zxPassword("configured", true)
	nPresented := vrtShape("npresented", 3) // 0: no metadata at all
	ctx := context.Background()
	valid := configured == ""
	if nPresented > 0 {
		var kv []string
		for i := 0; i < nPresented; i++ {
			p := zxPassword("presented"+string(rune('0'+i)), true)
			kv = append(kv, rpc.PasswordKey, p)
			valid = vrtOr(valid, p == configured)
		}
		ctx = metadata.NewIncomingContext(ctx, metadata.Pairs(kv...))
	}
	handler := vrtShape("handler", 3)
	db := &zxDB{authorized: valid, what: []string{"Query", "Follow", "HandleRemoteQueries"}[handler]}
	s := &server{golog.LoggerFor("zx"), db, 1, configured}
	stream := &zxStream{ctx}
	var err error
	func() {
		defer func() {
			if r := recover(); r != nil {
				if _, ok := r.(zxDone); !ok {
					panic(r)
				}
			}
		}()
		switch handler {
		case 0:
			err = s.Query(&rpc.Query{SQLString: "SELECT * FROM t"}, stream)
		case 1:
			err = s.Follow(&common.Follow{}, stream)
		case 2:
			err = s.HandleRemoteQueries(&rpc.RegisterQueryHandler{Partition: 0}, stream)
		}
	}()
	// a caller with valid credentials is not refused before the DB is reached
	vrtAssert(vrtImplies(valid, db.touched), "a caller presenting the configured password reaches the DB through "+db.what)
	vrtAssert(vrtImplies(!valid, err != nil), "a caller without the configured password gets an error from "+db.what)
	vrtReach("C19.R")
}
