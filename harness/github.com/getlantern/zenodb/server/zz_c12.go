package server

// C12.S — Server.followSource reconnect loop (DESIGN §5 C12.S): with a leader connection that
// breaks after a solver-chosen number of deliveries and an insert callback that may fail at a
// chosen delivery, every re-Follow asks the leader to resume exactly at the offset of the last
// entry whose insert succeeded (so nothing accepted is requested again below it and nothing is
// skipped above it).

import (
	"context"
	"errors"
	"time"

	"github.com/getlantern/golog"
	"github.com/getlantern/wal"
	"github.com/getlantern/zenodb/common"
	"github.com/getlantern/zenodb/core"
	"github.com/getlantern/zenodb/planner"
	"github.com/getlantern/zenodb/rpc"
	"google.golang.org/grpc"
)

type zxClient struct {
	follows     int
	maxFollows  int
	breakAfter  []int // per connection: deliveries before the stream breaks
	next        int64 // next offset position to deliver
	requested   []wal.Offset
	stop        chan interface{}
	lastAccepted     func() int64
	acceptedAtFollow []int64
}

func (c *zxClient) NewInserter(ctx context.Context, stream string, opts ...grpc.CallOption) (rpc.Inserter, error) {
	return nil, errors.New("unused")
}
func (c *zxClient) Query(ctx context.Context, sqlString string, includeMemStore bool, opts ...grpc.CallOption) (*common.QueryMetaData, func(onRow core.OnFlatRow) (*common.QueryStats, error), error) {
	return nil, nil, errors.New("unused")
}
func (c *zxClient) ProcessRemoteQuery(ctx context.Context, partition int, query planner.QueryClusterFN, timeout time.Duration, opts ...grpc.CallOption) error {
	return errors.New("unused")
}
func (c *zxClient) Close() error { return nil }

func (c *zxClient) Follow(ctx context.Context, f *common.Follow, opts ...grpc.CallOption) (int, func() (data []byte, newOffset wal.Offset, err error), error) {
	if c.follows == c.maxFollows {
		close(c.stop)
		return 0, nil, errors.New("leader gone")
	}
	conn := c.follows
	c.follows++
	c.requested = append(c.requested, f.EarliestOffset)
	c.acceptedAtFollow = append(c.acceptedAtFollow, c.lastAccepted())
	// the leader resumes right after the requested offset
	c.next = 1
	if f.EarliestOffset != nil {
		c.next = f.EarliestOffset.Position() + 1
	}
	delivered := 0
	return 7, func() ([]byte, wal.Offset, error) {
		if delivered == c.breakAfter[conn] {
			return nil, nil, errors.New("connection lost")
		}
		delivered++
		o := wal.NewOffset(1, c.next)
		c.next++
		return []byte{1}, o, nil
	}, nil
}

//zx:harness prop=C12 id=C12.S tier=quick replay=interp
func zxC12FollowSource() {
	s := &Server{log: golog.LoggerFor("zx")}
	stop := make(chan interface{})
	c := &zxClient{maxFollows: 3, stop: stop, next: 1}
	for i := 0; i < 3; i++ {
		c.breakAfter = append(c.breakAfter, vrtShape("breakAfter"+string(rune('0'+i)), 3))
	}
	failAt := vrtShape("insertFailsAt", 7) // the k-th insert overall fails (0: never)
	var accepted []int64
	attempts := 0
	c.lastAccepted = func() int64 {
		if len(accepted) == 0 {
			return 0
		}
		return accepted[len(accepted)-1]
	}
	insert := func(data []byte, newOffset wal.Offset, source int) error {
		attempts++
		if attempts == failAt {
			return errors.New("insert failed")
		}
		accepted = append(accepted, newOffset.Position())
		return nil
	}
	s.followSource(c, 0, &common.Follow{Stream: "s"}, insert, stop)
	vrtAssert(len(c.requested) == 3, "the loop reconnects after each broken stream")
	for conn, req := range c.requested {
		want := c.acceptedAtFollow[conn]
		if want == 0 {
			vrtAssert(req == nil, "a Follow issued before anything was accepted starts from the beginning")
		} else {
			vrtAssert(req != nil && req.Position() == want, "re-Follow #"+string(rune('0'+conn))+" resumes at the last entry whose insert succeeded")
		}
	}
	for i, o := range accepted {
		vrtAssert(o == int64(i+1), "accepted entries are 1,2,3,... without gap or repetition (a failed insert is offered again)")
	}
	vrtReach("C12.S")
}
