package sql

// C08.N — a WHERE clause compares the dimension it names, whatever that name is: for dimension
// names from a list that includes short ones (t, f, y, n, no), `WHERE <dim> = 'x'` parsed by
// the real sql.Parse evaluates to true on a row whose dimension is 'x', to false on one whose
// dimension is 'z', and `<>` the other way round; GROUP BY <dim> groups by that dimension.

import (
	"github.com/getlantern/bytemap"
)

//zx:harness prop=C08 id=C08.N tier=quick
func zxC08DimNames() {
	names := []string{"d", "t", "f", "y", "n", "no", "tt", "true_"}
	name := names[vrtShape("name", len(names))]
	val := []string{"x", "z"}[vrtShape("val", 2)]
	neq := vrtShape("neq", 2) == 1
	op := "="
	if neq {
		op = "<>"
	}
	q, err := Parse("SELECT a FROM tbl WHERE " + name + " " + op + " 'x' GROUP BY " + name)
	vrtAssert(err == nil, "the query parses for dimension "+name)
	if err != nil {
		return
	}
	row := bytemap.New(map[string]interface{}{name: val})
	got, _ := q.Where.Eval(row).(bool)
	want := (val == "x") != neq
	vrtAssert(got == want, "WHERE "+name+" "+op+" 'x' on a row with "+name+"='"+val+"' compares the dimension")
	vrtAssert(len(q.GroupBy) == 1 && q.GroupBy[0].Expr.Eval(row) == val, "GROUP BY "+name+" groups by the dimension's value")
	vrtReach("C08.N")
}
