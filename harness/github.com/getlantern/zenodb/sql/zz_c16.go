package sql

// C16.D — sql.ParseDuration over every string of up to L symbolic bytes: it never panics, and
// when it accepts a string of the simple shape [+-]digits unit the value is sign·digits·unit
// (DESIGN §5 C16.D). The bytes are symbolic; the tokenizer's case analysis is explored by the
// solver (one path per class of strings), not enumerated.

import (
	"time"
)

var zxUnits = map[string]int64{"ns": 1, "us": 1000, "ms": 1000000, "s": 1000000000, "m": 60000000000, "h": 3600000000000, "d": 86400000000000, "w": 604800000000000}

// zxSimple reads [+-]?[0-9]+unit; ok=false for any other shape.
func zxSimple(s string) (int64, bool) {
	neg := false
	i := 0
	if i < len(s) && (s[i] == '-' || s[i] == '+') {
		neg = s[i] == '-'
		i++
	}
	start := i
	var v int64
	for i < len(s) && s[i] >= '0' && s[i] <= '9' {
		v = v*10 + int64(s[i]-'0')
		i++
	}
	if i == start || i == len(s) {
		return 0, false
	}
	for j := i; j < len(s); j++ {
		if s[j] == '.' || (s[j] >= '0' && s[j] <= '9') {
			return 0, false
		}
	}
	unit, ok := zxUnits[s[i:]]
	if !ok {
		return 0, false
	}
	v *= unit
	if neg {
		v = -v
	}
	return v, true
}

//zx:harness prop=C16 id=C16.D tier=quick fpconv=1 shard=len:5 L=4 maxconc=200 thorough.L=5 thorough.shard=len:6
func zxC16ParseDuration() {
	L := vrtParam("L", 4)
	n := vrtShape("len", L+1)
	s := vrtString("s", n)
	var d time.Duration
	var err error
	panicked := true
	func() {
		defer func() { recover() }()
		d, err = ParseDuration(s)
		panicked = false
	}()
	vrtAssert(!panicked, "ParseDuration does not panic on a string of "+zxItoa(n)+" bytes")
	if !panicked && err == nil {
		if want, ok := zxSimple(s); ok {
			vrtAssert(int64(d) == want, "an accepted [+-]digits-unit string has the value sign*digits*unit")
		}
	}
	if !panicked {
		if want, ok := zxSimple(s); ok && n > 0 {
			vrtAssert(err == nil && int64(d) == want, "a well-formed [+-]digits-unit string is accepted with its value")
		}
	}
	vrtReach("C16.D")
}

func zxItoa(i int) string {
	if i == 0 {
		return "0"
	}
	s := ""
	for i > 0 {
		s = string(rune('0'+i%10)) + s
		i /= 10
	}
	return s
}
