package web

// C19.W / C19.G / C13.W — web authentication and result completeness (DESIGN §5).
//
// Environment stubs (listed in the evidence): header and cookie access, securecookie decoding
// ("fails, or yields an arbitrary AuthData": a forged cookie is the failing branch, a well-signed
// one the other), the GitHub org lookup (nondeterministic), the OAuth redirect, DB.Query (a stub
// source), hllpp (cardinality sketches), context.WithTimeout (a deadline-only context).

import (
	"context"
	"errors"
	"net/http"
	"time"

	"github.com/getlantern/bytemap"
	"github.com/getlantern/zenodb"
	"github.com/getlantern/zenodb/core"
	"github.com/getlantern/zenodb/expr"
	"github.com/gorilla/securecookie"
	"github.com/retailnext/hllpp"
)

//zx:group web
//zx:replace (net/http.Header).Get zxHeaderGet
//zx:replace (*net/http.Request).Cookie zxCookie
//zx:replace (*github.com/gorilla/securecookie.SecureCookie).Decode zxDecode
//zx:replace (*github.com/getlantern/zenodb/web.handler).userInOrg zxUserInOrg
//zx:replace (*github.com/getlantern/zenodb/web.handler).requestAuthorization zxRequestAuthorization

var zxErrNoCookie = errors.New("http: named cookie not present")

var (
	zxHeaderToken   string
	zxHasCookie     bool
	zxCookieDecodes bool
	zxCookieData    AuthData
	zxInOrg         bool
	zxOrgErr        bool
	zxRedirected    bool
)

func zxHeaderGet(h http.Header, key string) string {
	if key == authheader {
		return zxHeaderToken
	}
	return ""
}

func zxCookie(r *http.Request, name string) (*http.Cookie, error) {
	if name == authcookie && zxHasCookie {
		return &http.Cookie{Name: name, Value: "opaque"}, nil
	}
	return nil, zxErrNoCookie
}

func zxDecode(s *securecookie.SecureCookie, name, value string, dst interface{}) error {
	if !zxCookieDecodes {
		return errors.New("securecookie: the value is not valid") // forged / tampered cookie
	}
	*(dst.(*AuthData)) = zxCookieData
	return nil
}

func zxUserInOrg(h *handler, accessToken string) (bool, error) {
	if zxOrgErr {
		return false, errors.New("github unavailable")
	}
	return zxInOrg, nil
}

func zxRequestAuthorization(h *handler, resp http.ResponseWriter, req *http.Request) {
	zxRedirected = true
}

type zxResp struct {
	status int
	hdr    http.Header
}

func (r *zxResp) Header() http.Header         { return r.hdr }
func (r *zxResp) Write(b []byte) (int, error) { return len(b), nil }
func (r *zxResp) WriteHeader(statusCode int) {
	if r.status == 0 {
		r.status = statusCode
	}
}

func zxOptStr(name string) string {
	if vrtShape("has"+name, 2) == 0 {
		return ""
	}
	return vrtString(name, 2)
}

// C19.W: authenticate returns true only for OAuth-unconfigured servers, the static token, or a
// cookie that decodes, is not expired and whose user is in the org.
//
//zx:harness prop=C19 id=C19.W tier=quick env=web symclock=1
func zxC19Authenticate() {
	h := &handler{}
	h.Opts.OAuthClientID = zxOptStr("clientID")
	h.Opts.OAuthClientSecret = zxOptStr("clientSecret")
	h.Opts.Password = zxOptStr("password")
	zxHeaderToken = zxOptStr("header")
	zxHasCookie = vrtShape("hasCookie", 2) == 1
	zxCookieDecodes = vrtBool("decodes")
	zxCookieData = AuthData{AccessToken: "tok", Expiration: vrtTime("expiration")}
	zxInOrg = vrtBool("inOrg")
	zxOrgErr = vrtBool("orgErr")
	zxRedirected = false
	req := &http.Request{Header: http.Header{}}
	resp := &zxResp{hdr: http.Header{}}
	before := time.Now()
	ok := h.authenticate(resp, req)
	after := time.Now()
	oauthOff := h.Opts.OAuthClientID == "" || h.Opts.OAuthClientSecret == ""
	tokenOK := h.Opts.Password != "" && zxHeaderToken != "" && zxHeaderToken == h.Opts.Password
	// "not expired" judged at some instant of the call: expired before the call started => expired
	expiredBefore := zxCookieData.Expiration.Before(before)
	_ = after
	sessionOK := zxHasCookie && zxCookieDecodes && !expiredBefore && zxInOrg && !zxOrgErr
	vrtAssert(vrtImplies(ok, vrtOr(oauthOff, vrtOr(tokenOK, sessionOK))), "authenticate accepts only: OAuth unconfigured, the static token, or a decodable, unexpired, in-org session")
	vrtAssert(vrtImplies(vrtAnd(!oauthOff, tokenOK), ok), "the static token is accepted")
	vrtReach("C19.W")
}

// ---- C19.G: sqlQuery and cachedQuery serve nothing when authenticate says no -------------------

//zx:group gate
//zx:replace (*github.com/getlantern/zenodb/web.handler).authenticate zxAuthStub
//zx:replace (*github.com/getlantern/zenodb/web.handler).query zxQueryStub
//zx:replace (*github.com/getlantern/zenodb/web.cache).getByPermalink zxGetByPermalinkStub
//zx:replace (*github.com/getlantern/zenodb/web.handler).respondWithCacheEntry zxRespondStub
//zx:replace github.com/gorilla/mux.Vars zxMuxVars

var (
	zxAuthAnswer bool
	zxDataTouch  int
)

func zxAuthStub(h *handler, resp http.ResponseWriter, req *http.Request) bool { return zxAuthAnswer }
func zxQueryStub(h *handler, req *http.Request, sqlString string, immediate bool) (cacheEntry, error) {
	zxDataTouch++
	return nil, nil
}
func zxGetByPermalinkStub(c *cache, permalink string) (cacheEntry, error) {
	zxDataTouch++
	return nil, nil
}
func zxRespondStub(h *handler, resp http.ResponseWriter, req *http.Request, ce cacheEntry, err error, timeout time.Duration) {
	zxDataTouch++
}
func zxMuxVars(r *http.Request) map[string]string { return map[string]string{"permalink": "p"} }

//zx:harness prop=C19 id=C19.G tier=quick env=gate
func zxC19Gate() {
	h := &handler{cache: &cache{}}
	zxAuthAnswer = vrtBool("auth")
	zxDataTouch = 0
	req := &http.Request{Header: http.Header{}}
	req.URL = nil
	resp := &zxResp{hdr: http.Header{}}
	which := vrtShape("endpoint", 4)
	if !zxAuthAnswer {
		switch which {
		case 0:
			h.cachedQuery(resp, req)
		case 1:
			h.sqlQuery(resp, req, shortTimeout, false)
		case 2:
			h.sqlQuery(resp, req, shortTimeout, true)
		case 3:
			h.sqlQuery(resp, req, longTimeout, false)
		}
		vrtAssert(resp.status == http.StatusForbidden, "unauthenticated request is answered 403")
		vrtAssert(zxDataTouch == 0, "unauthenticated request touches neither the query path nor the cache")
	}
	vrtReach("C19.G")
}

// ---- C13.W: doQuery reports an incomplete scan as an error -------------------------------------

//zx:group doquery
//zx:replace (*github.com/getlantern/zenodb.DB).Query zxDBQuery
//zx:replace github.com/retailnext/hllpp.New zxHLLNew
//zx:replace (*github.com/retailnext/hllpp.HLLPP).Add zxHLLAdd
//zx:replace (*github.com/retailnext/hllpp.HLLPP).Count zxHLLCount
//zx:replace context.WithTimeout zxWithTimeout
//zx:replace github.com/dustin/go-humanize.Bytes zxHumanize

func zxHLLNew() *hllpp.HLLPP                { return &hllpp.HLLPP{} }
func zxHLLAdd(h *hllpp.HLLPP, v []byte)     {}
func zxHLLCount(h *hllpp.HLLPP) uint64      { return 0 }
func zxHumanize(s uint64) string            { return "n bytes" }

type zxCtx struct {
	context.Context
	deadline time.Time
}

func (c *zxCtx) Deadline() (time.Time, bool) { return c.deadline, true }
func (c *zxCtx) Done() <-chan struct{}       { return nil }
func (c *zxCtx) Err() error                  { return nil }

func zxWithTimeout(parent context.Context, d time.Duration) (context.Context, context.CancelFunc) {
	return &zxCtx{parent, time.Now().Add(d)}, func() {}
}

type zxSource struct {
	rows       []*core.FlatRow
	failAfter  int // source-side error after this many rows (-1: never)
	delivered  int
	returnedOK bool // Iterate returned a nil error
}

var zxTheSource *zxSource

func zxDBQuery(db *zenodb.DB, sqlString string, isSubQuery bool, subQueryResults [][]interface{}, includeMemStore bool) (core.FlatRowSource, error) {
	return zxTheSource, nil
}

func (s *zxSource) GetGroupBy() []core.GroupBy   { return nil }
func (s *zxSource) GetResolution() time.Duration { return time.Second }
func (s *zxSource) GetAsOf() time.Time           { return time.Time{} }
func (s *zxSource) GetUntil() time.Time          { return time.Time{} }
func (s *zxSource) String() string               { return "zxSource" }
func (s *zxSource) Iterate(ctx context.Context, onFields core.OnFields, onRow core.OnFlatRow) (interface{}, error) {
	fields := core.Fields{core.NewField("f", expr.FIELD("f"))}
	if err := onFields(fields); err != nil {
		return nil, err
	}
	for i, r := range s.rows {
		if i == s.failAfter {
			return nil, core.ErrDeadlineExceeded
		}
		more, err := onRow(r)
		if err != nil {
			return nil, err
		}
		s.delivered++
		if !more {
			return nil, nil
		}
	}
	if s.failAfter == len(s.rows) {
		return nil, core.ErrDeadlineExceeded
	}
	s.returnedOK = true
	return nil, nil
}

//zx:harness prop=C13 id=C13.W tier=quick env=doquery R=3 thorough.R=5
func zxC13DoQuery() {
	R := vrtParam("R", 3)
	k := vrtShape("rows", R+1)
	src := &zxSource{failAfter: vrtShape("failAfter", k+2) - 1}
	for i := 0; i < k; i++ {
		src.rows = append(src.rows, &core.FlatRow{TS: int64(i), Key: bytemap.New(map[string]interface{}{"d": "v"}), Values: []float64{vrtFloat64("v")}})
	}
	zxTheSource = src
	h := &handler{}
	h.Opts.MaxResponseBytes = int(vrtRange("maxBytes", 1, 64))
	h.Opts.QueryTimeout = time.Hour
	result, err := h.doQuery("SELECT * FROM t", "permalink")
	// whenever the scan did not complete (source error, or the size-limit callback stopped it),
	// the caller must be told: doQuery returns an error (execQuery then caches statusError)
	complete := src.returnedOK
	vrtAssert(vrtImplies(!complete, err != nil), "doQuery returns an error whenever the scan ended early")
	if err == nil {
		vrtAssert(result != nil && len(result.Rows) == k, "a successful doQuery carries every row of the source")
	}
	vrtReach("C13.W")
}
