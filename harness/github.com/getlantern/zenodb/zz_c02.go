package zenodb

// C02 — crash recovery applies every acknowledged insert exactly once (DESIGN §5 C02).

import (
	"bytes"
	"time"

	"github.com/getlantern/bytemap"
	"github.com/getlantern/wal"
	"github.com/getlantern/zenodb/common"
	"github.com/getlantern/zenodb/core"
	"github.com/getlantern/zenodb/encoding"
)

func zxOffset(name string) wal.Offset {
	return wal.NewOffset(vrtInt64("seq"+name), vrtInt64("pos"+name))
}

func zxOffsetEq(a, b wal.Offset) bool {
	return vrtAnd(a.FileSequence() == b.FileSequence(), a.Position() == b.Position())
}

// C02.O / C12.O — wal.Offset.After is a strict total order on offsets; OffsetsBySource.Advance is
// the point-wise maximum and never lowers an offset; LimitAge never lowers one either.
//
//zx:harness prop=C02+C12 id=O tier=quick
func zxC02Offsets() {
	a, b, c := zxOffset("a"), zxOffset("b"), zxOffset("c")
	// strict total order
	vrtAssert(!a.After(a), "After is irreflexive")
	vrtAssert(!(a.After(b) && b.After(a)), "After is asymmetric")
	vrtAssert(vrtImplies(vrtAnd(a.After(b), b.After(c)), a.After(c)), "After is transitive")
	vrtAssert(vrtOr(vrtOr(a.After(b), b.After(a)), zxOffsetEq(a, b)), "After is total: a>b, b>a or a=b")
	// Advance: point-wise maximum over two sources, one of them present on one side only
	x := common.OffsetsBySource{0: a, 1: b}
	y := common.OffsetsBySource{0: c}
	r := x.Advance(y)
	vrtAssert(len(r) == 2, "Advance keeps every source")
	vrtAssert(!a.After(r[0]) && !c.After(r[0]), "Advance never lowers an offset (source 0)")
	vrtAssert(vrtOr(zxOffsetEq(r[0], a), zxOffsetEq(r[0], c)), "Advance yields one of the two offsets (source 0)")
	vrtAssert(zxOffsetEq(r[1], b), "Advance keeps a source the other side does not have")
	vrtAssert(zxOffsetEq(x[0], a) && zxOffsetEq(y[0], c), "Advance does not modify its operands")
	// LimitAge
	l := x.LimitAge(c)
	vrtAssert(!a.After(l[0]) && !c.After(l[0]) && !b.After(l[1]) && !c.After(l[1]), "LimitAge never lowers an offset and enforces the limit")
	vrtReach("O")
}

// C02.H — table.writeOffsets followed by table.readOffsets(5, ·) round-trips any offsets map of
// up to two sources and hands back the unread remainder untouched; a version-4 header is a single
// 16-byte offset.
//
//zx:harness prop=C02 id=C02.H tier=quick
func zxC02Header() {
	t, _ := zxTable(core.Fields{core.PointsField, zxFieldA})
	n := vrtShape("sources", 3)
	in := common.OffsetsBySource{}
	srcs := []int{0, int(vrtRange("src", 1, 1000))}
	for i := 0; i < n; i++ {
		in[srcs[i]] = zxOffset("o" + zxItoa(i))
	}
	var buf bytes.Buffer
	err := t.writeOffsets(&buf, in)
	vrtAssert(err == nil, "writeOffsets succeeds on a buffer")
	tail := vrtBytes("tail", 3)
	data := append(buf.Bytes(), tail...)
	out, rest := t.readOffsets(FileVersion_5, data)
	vrtAssert(len(out) == n, "same number of sources read back")
	for i := 0; i < n; i++ {
		vrtAssert(zxOffsetEq(out[srcs[i]], in[srcs[i]]), "offset of source #"+zxItoa(i)+" round-trips")
	}
	vrtAssert(len(rest) == 3 && rest[0] == tail[0] && rest[1] == tail[1] && rest[2] == tail[2], "the remainder after the offsets is returned untouched")
	// version 4: one bare offset
	o := zxOffset("v4")
	out4, rest4 := t.readOffsets(FileVersion_4, append(append([]byte(nil), o...), tail...))
	vrtAssert(len(out4) == 1 && zxOffsetEq(out4[0], o) && len(rest4) == 3, "a version-4 header is a single offset for source 0")
	vrtReach("C02.H")
}

type zxState struct {
	rows map[string]float64 // key -> value of field a at zxNow
	offs int64              // position of the offset of source 0 (0 = none)
}

func zxRecover(fields core.Fields) (zxState, bool) {
	t2, _ := zxTable(fields)
	rs2, offs, err := t2.openRowStore(&rowStoreOptions{dir: "/data/t"})
	if err != nil {
		return zxState{}, false
	}
	st := zxState{rows: map[string]float64{}}
	if o := offs[0]; o != nil {
		st.offs = o.Position()
	}
	scanOffs, err := rs2.fileStore.iterate(nil, nil, false, false, func(key bytemap.ByteMap, cols []encoding.Sequence, raw []byte) (bool, error) {
		k, _ := key.Get("k").(string)
		w := zxFieldA.Expr.EncodedWidth()
		for p := 0; p < cols[1].NumPeriods(w); p++ {
			v, _ := cols[1].ValueAt(p, zxFieldA.Expr)
			st.rows[k] += v
		}
		return true, nil
	})
	if err != nil {
		return st, false
	}
	_ = scanOffs
	return st, true
}

func zxSameState(a, b zxState) bool {
	if a.offs != b.offs || len(a.rows) != len(b.rows) {
		return false
	}
	for k, v := range a.rows {
		w, ok := b.rows[k]
		if !ok || v != w {
			return false
		}
	}
	return true
}

// C02.F — the crash-point obligation (DESIGN §5 C02.F): an optional earlier flush, an optional
// offset-only persistence, then a memstore of one or two inserts is flushed by the real
// doProcessFlush (or the offset file is written by the real rowStore.writeOffsets) and the
// process dies at a solver-chosen file-system operation; unsynced data survives only partially.
// The real openRowStore + fileStore.iterate on what is left must find EITHER the state before
// the flush OR the state after it: rows that reflect exactly the inserts up to the recovered
// offset, each once.
//
//zx:harness prop=C02 id=C02.F tier=quick env=fs shard=prev:2,what:2 maxops=40 thorough.maxops=80
func zxC02Crash() {
	zxFSReset()
	fields := core.Fields{core.PointsField, zxFieldA}
	_, rs := zxTable(fields)
	pre := zxState{rows: map[string]float64{}}
	if vrtShape("prev", 2) == 1 {
		zxInsert(rs, rs.memStore, "x", zxNow, map[string]float64{"a": 1}, 0, 10)
		rs.doProcessFlush(rs.memStore, false, false)
		pre.rows["x"] = 1
		pre.offs = 10
	}
	post := zxState{rows: map[string]float64{}}
	for k, v := range pre.rows {
		post.rows[k] = v
	}
	what := vrtShape("what", 2)
	ms := rs.memStore
	if what == 0 {
		// data-carrying flush: one or two inserts, the second on the same or on another key
		zxInsert(rs, ms, "x", zxNow, map[string]float64{"a": 2}, 0, 20)
		post.rows["x"] += 2
		post.offs = 20
		if vrtShape("two", 2) == 1 {
			k2 := []string{"x", "y"}[vrtShape("k2", 2)]
			zxInsert(rs, ms, k2, zxNow.Add(-time.Second*time.Duration(vrtShape("older", 2))), map[string]float64{"a": 4}, 0, 30)
			post.rows[k2] += 4
			post.offs = 30
		}
	} else {
		// nothing to flush but the WAL position advanced (skipped entries): offset-only persistence
		ms.offsetsBySource[0] = wal.NewOffset(1, 20)
		ms.offsetChanged = true
		post.offs = 20
	}
	opsBefore := zxOpCount
	crashAt := vrtShape("crashAt", vrtParam("maxops", 40)) // 0 = no crash
	if crashAt > 0 {
		zxCrashAt = opsBefore + crashAt
	}
	crashed := vrtCatchCrash(func() {
		if what == 0 {
			rs.doProcessFlush(ms, false, false)
		} else {
			rs.writeOffsets(ms.offsetsBySource)
		}
	})
	if crashAt > 0 && !crashed {
		return // the operation performs fewer file-system steps than crashAt: not a crash point
	}
	keepMode := 0
	if crashed {
		keepMode = vrtShape("keep", 3)
	}
	zxAfterCrash(func(name string, unsynced int) int {
		switch keepMode {
		case 0:
			return 0
		case 1:
			return unsynced / 2
		}
		return unsynced
	})
	got, ok := zxRecover(fields)
	vrtAssert(ok, "the row store reopens and scans after a crash at file-system step "+zxItoa(crashAt))
	if ok {
		if !crashed {
			vrtAssert(zxSameState(got, post), "without a crash the reopened store holds the flushed state")
		} else {
			vrtAssert(zxSameState(got, pre) || zxSameState(got, post), "after a crash at step "+zxItoa(crashAt)+" the reopened store holds exactly the state before or after the flush (rows consistent with the recovered offset)")
		}
	}
	vrtReach("C02.F")
}
