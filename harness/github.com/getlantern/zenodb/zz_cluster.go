package zenodb

// C13.C — DB.queryCluster bookkeeping under partition faults (DESIGN §5 C13.C), and
// C10.M — partitionRowMapper.

import (
	"context"
	"errors"
	"time"

	"github.com/getlantern/bytemap"
	"github.com/getlantern/mtime"
	"github.com/getlantern/vtime"
	"github.com/getlantern/zenodb/common"
	"github.com/getlantern/zenodb/core"
	"github.com/getlantern/zenodb/encoding"
	"github.com/getlantern/zenodb/planner"
)

//zx:group cluster
//zx:replace github.com/getlantern/mtime.Stopwatch zxStopwatch

func zxStopwatch() func() time.Duration { return func() time.Duration { return 0 } }

var _ = mtime.Stopwatch

var errPartition = errors.New("partition failed")

// C13.C: each of P partitions is, by the solver's choice, one of: answers all its k rows; fails
// after j rows; has no handler registered; never answers (the leader's timer fires). On return,
// every partition that did not deliver all its rows is listed in MissingPartitions or the call
// returned an error, and NumSuccessfulPartitions counts no such partition. Run-to-block schedule:
// one goroutine per partition, run when the leader's select has nothing ready.
//
//zx:harness prop=C13 id=C13.C tier=quick env=cluster replay=interp P=2 K=2 thorough.P=3 thorough.K=3 thorough.shard=unflat:2,behaviour0:4
func zxC13QueryCluster() {
	P := vrtParam("P", 2)
	K := vrtParam("K", 2)
	clock := vtime.NewVirtualClock(time.Time{})
	clock.Advance(zxNow)
	db := &DB{opts: &DBOpts{NumPartitions: P, ClusterQueryTimeout: time.Minute, ClusterQueryConcurrency: 4}, clock: clock, log: rsLog(),
		remoteQueryHandlers: make(map[int]chan planner.QueryClusterFN)}
	unflat := vrtShape("unflat", 2) == 1
	fields := core.Fields{zxFieldA}
	complete := make([]bool, P)
	expectedRows := 0
	never := make(chan bool)
	for p := 0; p < P; p++ {
		p := p
		behaviour := vrtShape("behaviour"+zxItoa(p), 4)
		failAfter := 0
		if behaviour == 1 {
			failAfter = vrtShape("failAfter"+zxItoa(p), K+1)
		}
		switch behaviour {
		case 0:
			complete[p] = true
			expectedRows += K
		case 2:
			continue // no handler registered
		}
		db.RegisterQueryHandler(p, func(ctx context.Context, sqlString string, isSubQuery bool, subQueryResults [][]interface{}, isUnflat bool, onFields core.OnFields, onRow core.OnRow, onFlatRow core.OnFlatRow) (interface{}, error) {
			if behaviour == 3 {
				<-never // never answers
			}
			onFields(fields)
			for r := 0; r < K; r++ {
				if behaviour == 1 && r == failAfter {
					return nil, errPartition
				}
				key := bytemap.New(map[string]interface{}{"p": p, "r": r})
				var more bool
				var err error
				if isUnflat {
					more, err = onRow(key, core.Vals{encoding.NewFloatValue(zxFieldA.Expr, zxNow, 1)})
				} else {
					more, err = onFlatRow(&core.FlatRow{TS: zxNow.UnixNano(), Key: key, Values: []float64{1}})
				}
				if err != nil {
					return nil, err
				}
				if !more {
					return nil, nil
				}
			}
			if behaviour == 1 && failAfter == K {
				return nil, errPartition
			}
			return &common.QueryStats{}, nil
		})
	}
	got := 0
	stats, err := db.queryCluster(context.Background(), "SELECT * FROM t", false, nil, false, unflat, func(f core.Fields) error { return nil },
		func(key bytemap.ByteMap, vals core.Vals) (bool, error) { got++; return true, nil },
		func(row *core.FlatRow) (bool, error) { got++; return true, nil })
	qs, _ := stats.(*common.QueryStats)
	vrtAssert(qs != nil, "queryCluster returns its statistics")
	if qs == nil {
		return
	}
	missing := map[int]bool{}
	for _, m := range qs.MissingPartitions {
		missing[m] = true
	}
	nComplete := 0
	for p := 0; p < P; p++ {
		if complete[p] {
			nComplete++
		} else {
			vrtAssert(missing[p] || err != nil, "partition "+zxItoa(p)+" did not deliver all its rows: it is listed as missing or an error is returned")
		}
	}
	// The HTTP layer (web.doQuery, C13.W) and plan operators above a cluster source decide on the
	// returned error alone — they do not look at MissingPartitions — so for the HTTP clause of the
	// property a partition lost to a failure must surface as an error here.
	if nComplete < P {
		vrtAssert(err != nil, "a partition failed, had no handler or timed out: queryCluster returns an error (callers such as the HTTP layer decide on the error alone)")
	}
	vrtAssert(qs.NumPartitions == P, "NumPartitions is the configured number")
	vrtAssert(qs.NumSuccessfulPartitions <= nComplete, "NumSuccessfulPartitions counts only partitions that delivered everything")
	if nComplete == P {
		vrtAssert(err == nil && len(qs.MissingPartitions) == 0 && qs.NumSuccessfulPartitions == P && got == expectedRows, "with every partition complete, all rows are delivered and nothing is reported missing")
	}
	vrtReach("C13.C")
}

// C10.M — partitionRowMapper(canonical, partitionFields): the value a partition reports for a
// field lands under the equal canonical field, fields the partition lacks become nil, and the
// mapper does not fail when the partition reports more fields than the canonical list has.
//
//zx:harness prop=C10 id=C10.M tier=quick
func zxC10RowMapper() {
	pool := core.Fields{core.PointsField, zxFieldA, zxFieldB, zxFieldC}
	lists := []core.Fields{
		{pool[1]}, {pool[1], pool[2]}, {pool[2], pool[1]}, {pool[0], pool[1], pool[2]}, {pool[3], pool[1]}, {pool[2]}, {pool[1], pool[2], pool[3]},
	}
	canonical := lists[vrtShape("canonical", len(lists))]
	partition := lists[vrtShape("partition", len(lists))]
	mapper := partitionRowMapper(canonical, partition)
	vals := make(core.Vals, len(partition))
	for i, f := range partition {
		vals[i] = encoding.Sequence{f.Name[0]} // a marker identifying the field
	}
	var out core.Vals
	panicked := true
	func() {
		defer func() { recover() }()
		out = mapper(vals)
		panicked = false
	}()
	vrtAssert(!panicked, "the row mapper does not panic when a partition reports "+zxItoa(len(partition))+" fields and the canonical list has "+zxItoa(len(canonical)))
	if panicked {
		return
	}
	for o, cf := range canonical {
		inPartition := false
		for _, pf := range partition {
			if pf.Equals(cf) {
				inPartition = true
			}
		}
		if o >= len(out) {
			vrtAssert(false, "the mapped row has a column for every canonical field")
			continue
		}
		if inPartition {
			vrtAssert(len(out[o]) == 1 && out[o][0] == cf.Name[0], "canonical field "+cf.Name+" receives the partition's value for the equal field")
		} else {
			vrtAssert(out[o] == nil, "canonical field "+cf.Name+" is nil when the partition lacks it")
		}
	}
	vrtReach("C10.M")
}
