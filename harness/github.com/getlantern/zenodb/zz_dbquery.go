package zenodb

// C07.D / C14.D — the whole query path on the real code: DB.Query (real parser and planner) over
// the real queryable, table.iterate, the real coalesceIteration and doProcessIterations (T3: one round of each
// service loop as a recorded goroutine, run when the query blocks) and the real row store (file-system model). A key has a
// period that was inside the retention window when it was stored and has expired since (the
// database clock is data driven; the memstore is never truncated and a flush passes untouched
// rows through), and a fresh period. A query without a time range has the window
// (now − retention, now] (C07), and a grouped or time-ranged query never returns a period that
// ended more than one resolution before now − retention (C14).

import (
	"context"
	"time"

	"github.com/getlantern/zenodb/core"
)

//zx:harness prop=C07+C14 id=C07.D tier=quick env=fs replay=interp shard=query:6
func zxC07QueryWindow() {
	zxFSReset()
	fields := core.Fields{core.PointsField, zxFieldA}
	t, rs := zxTable(fields)
	retention := 10 * time.Second
	t.RetentionPeriod = retention
	db := t.db
	db.tables["t"] = t
	db.opts.IterationCoalesceInterval = time.Millisecond
	db.requestedIterations = make(chan *iteration, 10)
	db.coalescedIterations = make(chan []*iteration, 4)
	// stored while fresh
	zxInsert(rs, rs.memStore, "x", zxNow, map[string]float64{"a": 1}, 0, 10)
	placement := vrtShape("placement", 3) // 0: stays in the memstore; 1: flushed; 2: flushed, then passed through a second flush untouched
	if placement >= 1 {
		rs.doProcessFlush(rs.memStore, false, false)
	}
	// a minute later
	later := zxNow.Add(60 * time.Second)
	db.clock.Advance(later)
	zxInsert(rs, rs.memStore, "y", later, map[string]float64{"a": 2}, 0, 20)
	if placement == 2 {
		rs.doProcessFlush(rs.memStore, false, false)
	}
	queries := []string{
		"SELECT * FROM t",
		"SELECT * FROM t GROUP BY *",
		"SELECT * FROM t GROUP BY *, period(1s)",
		"SELECT a FROM t ASOF '-10s'",
		"SELECT a FROM t GROUP BY k",   // control: planned with a group stage
		"SELECT a FROM t ASOF '-9s'", // control
	}
	q := queries[vrtShape("query", len(queries))]
	// one round of DB.coalesceIterations and of DB.processIterations (the bodies of their range
	// loops), recorded as goroutines that run when the query blocks waiting for its scan
	go func() {
		it := <-db.requestedIterations
		db.coalesceIteration(it)
		go func() { db.doProcessIterations(<-db.coalescedIterations) }()
	}()
	src, err := db.Query(q, false, nil, true)
	vrtAssert(err == nil, "the query plans: "+q)
	if err != nil {
		return
	}
	var tss []int64
	_, err = src.Iterate(context.Background(), core.FieldsIgnored, func(row *core.FlatRow) (bool, error) {
		tss = append(tss, row.TS)
		return true, nil
	})
	vrtAssert(err == nil, "the query runs: "+q)
	oldest := later.Add(-retention).Add(-time.Second).UnixNano()
	fresh := false
	for _, ts := range tss {
		vrtAssert(ts > oldest, "no returned period ended more than one resolution before now - retention: "+q)
		if ts == later.UnixNano() {
			fresh = true
		}
	}
	vrtAssert(fresh, "the fresh period is returned: "+q)
	vrtReach("C07.D")
}
