package zenodb

// File-system and snappy models used by the storage harnesses (DESIGN §3.6, T2). They are
// ordinary Go, interpreted symbolically like everything else, and substituted for the real
// functions by the //zx:replace directives of group "fs". Documented behaviour of the model:
//   * a file is a byte slice plus a "synced" watermark; Sync makes the whole content durable;
//   * Rename and Remove are atomic and durable;
//   * a crash (zxCrashAt) keeps, of every file, its synced prefix plus a harness-chosen part of
//     the unsynced suffix; open handles disappear;
//   * snappy is the identity codec (compression of symbolic bytes is not a solver target).

import (
	"errors"
	"io"
	"os"
	"sort"
	"strconv"
	"strings"
	"time"

	"github.com/golang/snappy"
)

//zx:group fs
//zx:replace os.MkdirAll zxMkdirAll
//zx:replace os.IsExist zxIsExist
//zx:replace os.IsNotExist zxIsNotExist
//zx:replace os.OpenFile zxOpenFile
//zx:replace os.Rename zxRename
//zx:replace os.Remove zxRemove
//zx:replace io/ioutil.TempFile zxTempFile
//zx:replace io/ioutil.TempDir zxTempDir
//zx:replace os.RemoveAll zxRemoveAll
//zx:replace io/ioutil.ReadFile zxReadFile
//zx:replace io/ioutil.ReadDir zxReadDir
//zx:replace (*os.File).Write zxFileWrite
//zx:replace (*os.File).Read zxFileRead
//zx:replace (*os.File).Sync zxFileSync
//zx:replace (*os.File).Close zxFileClose
//zx:replace (*os.File).Stat zxFileStat
//zx:replace (*os.File).Name zxFileName
//zx:replace github.com/golang/snappy.NewBufferedWriter zxSnappyW
//zx:replace github.com/golang/snappy.NewReader zxSnappyR
//zx:replace (*github.com/golang/snappy.Writer).Write zxSWWrite
//zx:replace (*github.com/golang/snappy.Writer).Flush zxSWFlush
//zx:replace (*github.com/golang/snappy.Writer).Close zxSWFlush
//zx:replace (*github.com/golang/snappy.Reader).Read zxSRRead
//zx:replace github.com/getlantern/zenodb.calcShaSum zxSha

type zxMemFile struct {
	data   []byte
	synced int
}

type zxHandle struct {
	name   string
	f      *zxMemFile
	pos    int
	closed bool
}

type zxCrash struct{}

var (
	zxFS          map[string]*zxMemFile
	zxHandles     map[*os.File]*zxHandle
	zxSW          map[*snappy.Writer]io.Writer
	zxSR          map[*snappy.Reader]io.Reader
	zxTmpSeq      int
	zxErrNotExist = errors.New("file does not exist")
	zxOps         []string
	zxOpCount     int
	zxCrashAt     int // crash when the zxCrashAt-th mutating operation is about to run (0 = never)
)

func zxFSReset() {
	zxFS = map[string]*zxMemFile{}
	zxHandles = map[*os.File]*zxHandle{}
	zxSW = map[*snappy.Writer]io.Writer{}
	zxSR = map[*snappy.Reader]io.Reader{}
	zxTmpSeq = 0
	zxOps = nil
	zxOpCount = 0
	zxCrashAt = 0
	zxShortRead = 0
}

// zxShortRead > 0: (*os.File).Read hands back at most that many bytes per call (io.Reader
// contract: "Read reads up to len(b) bytes"; callers that need a full buffer use io.ReadFull).
var zxShortRead int

// zxOp marks a mutating file-system operation (a potential crash point).
func zxOp(what string) {
	zxOpCount++
	zxOps = append(zxOps, what)
	if zxCrashAt != 0 && zxOpCount == zxCrashAt {
		vrtCrash()
	}
}

// zxAfterCrash turns the file system into what a restarted process finds: open handles are gone
// and every file keeps its synced prefix plus keep(name, unsynced length) further bytes.
func zxAfterCrash(keep func(name string, unsynced int) int) {
	zxHandles = map[*os.File]*zxHandle{}
	zxSW = map[*snappy.Writer]io.Writer{}
	zxSR = map[*snappy.Reader]io.Reader{}
	for name, f := range zxFS {
		un := len(f.data) - f.synced
		if un > 0 {
			f.data = f.data[:f.synced+keep(name, un)]
		}
		f.synced = len(f.data)
	}
	zxCrashAt = 0
}

func zxSha(filename string) (string, error)        { return "sha", nil }
func zxMkdirAll(path string, perm os.FileMode) error { return nil }
func zxIsExist(err error) bool                     { return false }
func zxIsNotExist(err error) bool                  { return err == zxErrNotExist }

func zxTempFile(dir, pattern string) (*os.File, error) {
	zxOp("tempfile")
	zxTmpSeq++
	if dir == "" {
		dir = "/tmp" // os.TempDir()
	}
	name := dir + "/" + pattern + strconv.Itoa(zxTmpSeq)
	mf := &zxMemFile{}
	zxFS[name] = mf
	h := &os.File{}
	zxHandles[h] = &zxHandle{name: name, f: mf}
	return h, nil
}

func zxTempDir(dir, pattern string) (string, error) {
	zxTmpSeq++
	return "/tmp/" + pattern + strconv.Itoa(zxTmpSeq), nil
}

func zxRemoveAll(path string) error {
	for name := range zxFS {
		if name == path || strings.HasPrefix(name, path+"/") {
			delete(zxFS, name)
		}
	}
	return nil
}

func zxOpenFile(name string, flag int, perm os.FileMode) (*os.File, error) {
	mf := zxFS[name]
	if mf == nil && flag&os.O_CREATE != 0 {
		zxOp("create " + name)
		mf = &zxMemFile{}
		zxFS[name] = mf
	}
	if mf == nil {
		return nil, zxErrNotExist
	}
	h := &os.File{}
	zxHandles[h] = &zxHandle{name: name, f: mf}
	return h, nil
}

func zxReadFile(name string) ([]byte, error) {
	mf := zxFS[name]
	if mf == nil {
		return nil, zxErrNotExist
	}
	return append([]byte(nil), mf.data...), nil
}

type zxFileInfo struct{ name string }

func (fi zxFileInfo) Name() string       { return fi.name }
func (fi zxFileInfo) Size() int64        { return 0 }
func (fi zxFileInfo) Mode() os.FileMode  { return 0644 }
func (fi zxFileInfo) ModTime() time.Time { return time.Time{} }
func (fi zxFileInfo) IsDir() bool        { return false }
func (fi zxFileInfo) Sys() interface{}   { return nil }

func zxReadDir(dir string) ([]os.FileInfo, error) {
	var names []string
	for name := range zxFS {
		if strings.HasPrefix(name, dir+"/") && !strings.Contains(name[len(dir)+1:], "/") {
			names = append(names, name[len(dir)+1:])
		}
	}
	sort.Strings(names)
	out := make([]os.FileInfo, 0, len(names))
	for _, n := range names {
		out = append(out, zxFileInfo{n})
	}
	return out, nil
}

func zxRename(from, to string) error {
	zxOp("rename " + to)
	mf := zxFS[from]
	if mf == nil {
		return zxErrNotExist
	}
	zxFS[to] = mf
	delete(zxFS, from)
	return nil
}

func zxRemove(name string) error {
	zxOp("remove " + name)
	if zxFS[name] == nil {
		return zxErrNotExist
	}
	delete(zxFS, name)
	return nil
}

func zxFileWrite(f *os.File, b []byte) (int, error) {
	h := zxHandles[f]
	if h == nil || h.closed {
		return 0, errors.New("write on closed file")
	}
	zxOp("write")
	h.f.data = append(h.f.data, b...)
	return len(b), nil
}

func zxFileRead(f *os.File, b []byte) (int, error) {
	h := zxHandles[f]
	if h == nil || h.closed {
		return 0, errors.New("read on closed file")
	}
	if h.pos >= len(h.f.data) {
		return 0, io.EOF
	}
	if zxShortRead > 0 && len(b) > zxShortRead {
		b = b[:zxShortRead]
	}
	n := copy(b, h.f.data[h.pos:])
	h.pos += n
	return n, nil
}

func zxFileSync(f *os.File) error {
	h := zxHandles[f]
	if h == nil || h.closed {
		return errors.New("sync on closed file")
	}
	zxOp("sync")
	h.f.synced = len(h.f.data)
	return nil
}

func zxFileClose(f *os.File) error {
	h := zxHandles[f]
	if h == nil {
		return nil
	}
	if h.closed {
		return errors.New("file already closed")
	}
	h.closed = true
	return nil
}

func zxFileStat(f *os.File) (os.FileInfo, error) { return nil, errors.New("no stat in the model") }
func zxFileName(f *os.File) string {
	if h := zxHandles[f]; h != nil {
		return h.name
	}
	return ""
}

func zxSnappyW(w io.Writer) *snappy.Writer {
	sw := &snappy.Writer{}
	zxSW[sw] = w
	return sw
}

func zxSnappyR(r io.Reader) *snappy.Reader {
	sr := &snappy.Reader{}
	zxSR[sr] = r
	return sr
}

func zxSWWrite(sw *snappy.Writer, p []byte) (int, error) { return zxSW[sw].Write(p) }
func zxSWFlush(sw *snappy.Writer) error                   { return nil }
func zxSRRead(sr *snappy.Reader, p []byte) (int, error)   { return zxSR[sr].Read(p) }
