package zenodb

// C12.F — the leader side of replication: the real DB.processFollowers loop (T3: one recorded
// goroutine per message, run when the loop's select blocks). Two followers join stream
// "inbound" for table t, each reporting, per leader, the offset it has already applied (or none)
// and an optional earliest offset; then one WAL entry comes back from the partitioning stage.
// DB.followWAL (opens the WAL reader) and DB.startParallelEntryProcessing (the worker pool) are
// intercepted (group "leader"): the start offset handed to the reader is recorded, and the
// harness plays the worker pool's result.
//   * the reader started after a join begins no later than what any joined follower still needs:
//     a follower that has applied nothing of this leader makes it start from the beginning (nil);
//   * a follower's position on this leader is what it reported for THIS leader's id (not for any
//     other id in its offsets map), raised to its earliest offset;
//   * the entry is queued for exactly the followers of the entry's partition whose table passed
//     the WHERE and whose position is before the entry's offset — once each.

import (
	"time"

	"github.com/getlantern/bytemap"
	"github.com/getlantern/goexpr"
	"github.com/getlantern/wal"
	"github.com/getlantern/zenodb/common"
	"github.com/getlantern/zenodb/core"
	"github.com/getlantern/zenodb/encoding"
)

//zx:group leader
//zx:replace (*github.com/getlantern/zenodb.DB).followWAL zxFollowWAL
//zx:replace (*github.com/getlantern/zenodb.DB).startParallelEntryProcessing zxStartPEP

type zxFollowCall struct {
	stream     string
	offset     wal.Offset
	partitions map[string]*partitionSpec
}

var zxFollowCalls []zxFollowCall
var zxPEPResults chan *partitionsResult

func zxFollowWAL(db *DB, stream string, offset wal.Offset, partitions map[string]*partitionSpec, requests chan *partitionRequest) (func(), error) {
	zxFollowCalls = append(zxFollowCalls, zxFollowCall{stream, offset, partitions})
	return func() {}, nil
}

func zxStartPEP(db *DB) (chan *partitionRequest, chan *partitionsResult) {
	return make(chan *partitionRequest, 16), zxPEPResults
}

func zxMaybeOffset(name string) wal.Offset {
	if vrtShape("nil"+name, 2) == 1 {
		return nil
	}
	return wal.NewOffset(vrtRange("seq"+name, 1, 1000), vrtRange("pos"+name, 0, 1000))
}

// zxOffLE: a <= b where nil is the beginning of the WAL
func zxOffLE(a, b wal.Offset) bool {
	if a == nil {
		return true
	}
	if b == nil {
		return false
	}
	return !a.After(b)
}

//zx:harness prop=C12 id=C12.F tier=quick env=leader replay=interp shard=nilo0:2,nilo1:2
func zxC12Leader() {
	const leaderID = 7
	t, _ := zxTable(core.Fields{core.PointsField, zxFieldA})
	db := t.db
	db.opts.ID = leaderID
	db.opts.NumPartitions = 2
	db.opts.MaxFollowQueue = 8
	db.tables["t"] = t
	db.followerJoined = make(chan *follower, 2)
	zxFollowCalls = nil
	zxPEPResults = make(chan *partitionsResult, 4)

	type fol struct {
		f        *follower
		position wal.Offset // what it still needs: everything after this
	}
	var fols []*fol
	for i := 0; i < 2; i++ {
		reported := zxMaybeOffset("o" + zxItoa(i))
		earliest := zxMaybeOffset("e" + zxItoa(i))
		id := common.FollowerID{Partition: vrtShape("partition"+zxItoa(i), 2), ID: i + 1}
		offsets := common.OffsetsBySource{i + 1: wal.NewOffset(5000, 5000)} // what it applied from some other leader
		if reported != nil {
			offsets[leaderID] = reported
		}
		f := &follower{Follow: common.Follow{FollowerID: id, Stream: "inbound", EarliestOffset: earliest,
			Partitions: map[string]*common.Partition{"k": {Keys: []string{"k"}, Tables: []*common.PartitionTable{{Name: "t", Offsets: offsets}}}}},
			db: db, entries: make(chan *walEntry, 8)}
		pos := reported
		if !zxOffLE(earliest, pos) {
			pos = earliest
		}
		fols = append(fols, &fol{f, pos})
	}
	// the entry that comes back from the partitioning stage
	entry := &walEntry{stream: "inbound", data: []byte{1}, offset: wal.NewOffset(vrtRange("seqx", 1, 1000), vrtRange("posx", 0, 1000))}
	pid := vrtShape("entryPartition", 2)
	passed := vrtShape("wherePassed", 2) == 1

	stop := make(chan interface{})
	for _, fl := range fols {
		fl := fl
		go func() { db.followerJoined <- fl.f }()
	}
	go func() {
		zxPEPResults <- &partitionsResult{entry: entry, partitions: map[string]*partitionResult{"k": {pid: pid, wherePassed: map[string]bool{"t": passed}}}}
	}()
	go func() { close(stop) }()
	db.processFollowers(stop)

	vrtAssert(len(zxFollowCalls) >= 1, "a WAL reader is started when followers join")
	if len(zxFollowCalls) == 0 {
		return
	}
	last := zxFollowCalls[len(zxFollowCalls)-1]
	vrtAssert(last.stream == "inbound", "the reader is on the followers' stream")
	for i, fl := range fols {
		vrtAssert(zxOffLE(last.offset, fl.position), "the WAL reader started after the joins begins no later than what follower "+zxItoa(i)+" still needs")
	}
	for i, fl := range fols {
		want := 0
		if passed && fl.f.FollowerID.Partition == pid && (fl.position == nil || entry.offset.After(fl.position)) {
			want = 1
		}
		vrtAssert(len(fl.f.entries) == want, "follower "+zxItoa(i)+" is queued the entry iff it is of its partition, passed the WHERE and lies after its position on this leader ("+zxItoa(want)+")")
	}
	vrtReach("C12.F")
}

var _ = time.Second

// C10.W / C15.W — the leader pre-filters the WAL for its followers with each table's WHERE. After a
// follower has joined (real processFollowers, as in C12.F) the table's WHERE is changed the way
// ApplySchema / Alter do it (table.applyWhere); a point is then mapped by the real
// mapPartitionRequest over the partition specs the leader's WAL reader was started with. A
// point that the WHERE in force now admits must be passed on — a stand-alone node applies the
// current WHERE to every point (table.doInsert reads getWhere), so a cluster must hold it too.
//
//zx:harness prop=C10+C15 id=C10.W tier=quick env=leader replay=interp
func zxC10LeaderWhere() {
	t, _ := zxTable(core.Fields{core.PointsField, zxFieldA})
	db := t.db
	db.opts.ID = 7
	db.opts.NumPartitions = 1
	db.opts.MaxFollowQueue = 8
	db.tables["t"] = t
	db.followerJoined = make(chan *follower, 2)
	zxFollowCalls = nil
	zxPEPResults = make(chan *partitionsResult, 4)
	whereA, _ := goexpr.Binary("=", goexpr.Param("k"), goexpr.Constant("A"))
	whereAB, _ := goexpr.Binary("OR", whereA, mustBinary("=", goexpr.Param("k"), goexpr.Constant("B")))
	wheres := []goexpr.Expr{nil, whereA, whereAB}
	before := wheres[vrtShape("before", len(wheres))]
	after := wheres[vrtShape("after", len(wheres))]
	t.applyWhere(before)
	f := &follower{Follow: common.Follow{FollowerID: common.FollowerID{Partition: 0, ID: 1}, Stream: "inbound",
		Partitions: map[string]*common.Partition{"k": {Keys: []string{"k"}, Tables: []*common.PartitionTable{{Name: "t", Offsets: common.OffsetsBySource{}}}}}},
		db: db, entries: make(chan *walEntry, 8)}
	stop := make(chan interface{})
	go func() { db.followerJoined <- f }()
	go func() { close(stop) }()
	db.processFollowers(stop)
	vrtAssert(len(zxFollowCalls) == 1, "the WAL reader is started for the joined follower")
	if len(zxFollowCalls) != 1 {
		return
	}
	// the schema is re-applied with another WHERE
	t.applyWhere(after)
	kval := []string{"A", "B", "C"}[vrtShape("k", 3)]
	dims := bytemap.New(map[string]interface{}{"k": kval})
	data := make([]byte, 8+4+len(dims)+4)
	encoding.EncodeTime(data, zxNow)
	encoding.WriteInt32(data[8:], len(dims))
	copy(data[12:], dims)
	mapped := make(chan *partitionsResult, 1)
	db.mapPartitionRequest(partitionHash(), &partitionRequest{partitions: zxFollowCalls[0].partitions, entry: &walEntry{stream: "inbound", data: data, offset: wal.NewOffset(1, 1)}}, mapped)
	vrtAssert(len(mapped) == 1, "the entry is mapped")
	if len(mapped) != 1 {
		return
	}
	res := <-mapped
	pr := res.partitions["k"]
	vrtAssert(pr != nil, "the follower's partition spec is evaluated")
	if pr == nil {
		return
	}
	want := after == nil || after.Eval(dims).(bool)
	// a point that the leader passes on although the current WHERE rejects it is filtered again by
	// the follower's own table.insert; one that it withholds is lost to the cluster for good
	vrtAssert(vrtImplies(want, pr.wherePassed["t"]), "the leader does not withhold a point with k="+kval+" that the table's current WHERE admits ("+zxExprString(after)+"; it was "+zxExprString(before)+" when the follower joined)")
	vrtReach("C10.W")
}

func mustBinary(op string, l, r goexpr.Expr) goexpr.Expr {
	e, _ := goexpr.Binary(op, l, r)
	return e
}

func zxExprString(e goexpr.Expr) string {
	if e == nil {
		return "none"
	}
	return e.String()
}
