package zenodb

// C01.I / C14.A / C16.I / C16.M / C10.R / C12.D / C12.F / C17.C (DESIGN §5).

import (
	"context"
	"errors"
	"time"

	"github.com/getlantern/bytemap"
	"github.com/getlantern/goexpr"
	"github.com/getlantern/vtime"
	"github.com/getlantern/wal"
	"github.com/getlantern/zenodb/common"
	"github.com/getlantern/zenodb/core"
	"github.com/getlantern/zenodb/encoding"
)

// zxHash: a deterministic polynomial hash standing in for murmur3 (the properties need Reset and
// determinism, not the mixing); implements hash.Hash32.
type zxHash struct{ h uint32 }

func (z *zxHash) Write(p []byte) (int, error) {
	for _, b := range p {
		z.h = z.h*31 + uint32(b)
	}
	return len(p), nil
}
func (z *zxHash) Sum(b []byte) []byte { return b }
func (z *zxHash) Reset()              { z.h = 17 }
func (z *zxHash) Size() int           { return 4 }
func (z *zxHash) BlockSize() int      { return 1 }
func (z *zxHash) Sum32() uint32       { return z.h }

// zxEntry frames a WAL entry: ts | dimsLen | dims | valsLen | vals
func zxEntry(ts time.Time, dims, vals []byte) []byte {
	out := make([]byte, 8+4+len(dims)+4+len(vals))
	encoding.EncodeTime(out, ts)
	encoding.WriteInt32(out[8:], len(dims))
	copy(out[12:], dims)
	encoding.WriteInt32(out[12+len(dims):], len(vals))
	copy(out[16+len(dims):], vals)
	return out
}

func zxDrain(rs *rowStore) []*insert {
	var out []*insert
	for len(rs.inserts) > 0 {
		out = append(out, <-rs.inserts)
	}
	return out
}

func zxInsertTable(fields core.Fields, retention time.Duration) (*table, *rowStore) {
	t, rs := zxTable(fields)
	t.RetentionPeriod = retention
	rs.inserts = make(chan *insert, 100)
	return t, rs
}

// C14.A / C01.I — table.insert: a point older than now − retention is never handed to the row
// store, any other numeric point that passes WHERE is handed over exactly once, keyed by the
// projection of its dims onto the group-by, with its numeric values (ints coerced to floats).
//
//zx:harness prop=C14+C01 id=I.A tier=quick symclock=0
func zxC14Insert() {
	t, rs := zxInsertTable(core.Fields{core.PointsField, zxFieldA}, time.Hour)
	// WHERE d = 'x'
	hasWhere := vrtShape("where", 2) == 1
	if hasWhere {
		w, _ := goexpr.Binary("==", goexpr.Param("d"), goexpr.Constant("x"))
		t.Where = w
	}
	// GROUP BY e (projection) or all dims
	if vrtShape("groupby", 2) == 1 {
		t.GroupBy = []core.GroupBy{core.NewGroupBy("e", goexpr.Param("e"))}
	}
	// the point
	now := zxNow
	ts := now.Add(-time.Duration(vrtRange("age", -10, int64(2*time.Hour))))
	dval := []string{"x", "y"}[vrtShape("d", 2)]
	e := vrtInt64("e")
	dims := bytemap.New(map[string]interface{}{"d": dval, "e": e})
	var vals bytemap.ByteMap
	va := vrtFloat64("a")
	vrtAssume(vrtFinite(va))
	switch vrtShape("valkind", 4) {
	case 0:
		vals = bytemap.New(map[string]interface{}{"a": va})
	case 1:
		vals = bytemap.New(map[string]interface{}{"a": int(7)})
	case 2:
		vals = bytemap.New(map[string]interface{}{"a": "not numeric"})
	case 3:
		vals = bytemap.New(map[string]interface{}{"a": va, "b": 2.0})
	}
	ok := t.insert(zxEntry(ts, dims, vals), false, &zxHash{}, wal.NewOffset(1, 5), 0)
	got := zxDrain(rs)
	expired := ts.Before(now.Add(-time.Hour))
	filtered := hasWhere && dval != "x"
	numeric := vrtParam("unused", 0) == 0 && !(len(vals) > 0 && vals.Get("a") != nil && func() bool { _, isStr := vals.Get("a").(string); return isStr }())
	if expired || filtered {
		vrtAssert(!ok && len(got) == 0, "an expired or filtered point is not handed to the row store")
	} else if numeric {
		vrtAssert(ok && len(got) == 1, "an accepted numeric point is handed to the row store exactly once")
		if len(got) == 1 {
			in := got[0]
			tsp, params := in.vals.TimeAndParams()
			vrtAssert(tsp.Equal(ts), "the insert carries the point's timestamp")
			v, found := params.Get("a")
			vrtAssert(found, "the insert carries field a")
			if len(t.GroupBy) == 0 {
				vrtAssert(string(in.key) == string(dims), "without GROUP BY the key is the full dims map")
			} else {
				vrtAssert(in.key.Get("e") == interface{}(e) && in.key.Get("d") == nil, "with GROUP BY e the key is the projection onto e")
			}
			_ = v
		}
	} else {
		vrtAssert(len(got) == 0, "a point without any numeric value is not inserted")
	}
	vrtReach("I.A")
}

// C16.I — table.insert over an arbitrary byte buffer: it returns (never panics out), and a valid
// entry offered afterwards is still inserted.
//
//zx:harness prop=C16 id=C16.I tier=quick L=20 maxconc=80 thorough.L=24 thorough.maxconc=200 thorough.shard=len:25
func zxC16InsertGarbage() {
	t, rs := zxInsertTable(core.Fields{core.PointsField, zxFieldA}, time.Hour)
	L := vrtParam("L", 20)
	n := vrtShape("len", L+1)
	data := vrtBytes("data", n)
	if n >= 8 {
		// the entry's timestamp is not in the future of the database clock: zenodb's clock is
		// driven by the data, so a far-future timestamp legitimately expires later points
		encoding.EncodeTime(data, zxNow.Add(-time.Duration(vrtRange("age", 0, int64(time.Hour)))))
	}
	func() {
		defer func() {
			if r := recover(); r != nil {
				vrtAssert(false, "table.insert lets a panic escape on a malformed entry of "+zxItoa(n)+" bytes")
			}
		}()
		t.insert(data, false, &zxHash{}, wal.NewOffset(1, 1), 0)
	}()
	zxDrain(rs)
	dims := bytemap.New(map[string]interface{}{"d": "x"})
	vals := bytemap.New(map[string]interface{}{"a": 1.0})
	ok := t.insert(zxEntry(zxNow, dims, vals), false, &zxHash{}, wal.NewOffset(1, 2), 0)
	vrtAssert(ok && len(zxDrain(rs)) == 1, "a valid entry after a malformed one is still inserted")
	vrtReach("C16.I")
}

// C10.R / C16.M — routing agreement: for a WAL entry with arbitrary dims the leader's
// mapPartitionRequest sends exactly one result, with 0 <= pid < P, and among P follower tables
// (one per partition) exactly the one with that pid accepts the entry.
//
//zx:harness prop=C10+C16 id=R tier=quick shard=P:5,keys:3
func zxC10Routing() {
	P := vrtShape("P", 5) + 1
	keysets := [][]string{nil, {"a"}, {"b", "a"}}
	partitionBy := keysets[vrtShape("keys", 3)]
	// dims: a and b each absent or a symbolic value
	m := map[string]interface{}{"c": "z"}
	if vrtShape("hasA", 2) == 1 {
		m["a"] = vrtString("a", 2)
	}
	if vrtShape("hasB", 2) == 1 {
		m["b"] = vrtInt64("b")
	}
	dims := bytemap.New(m)
	vals := bytemap.New(map[string]interface{}{"v": 1.0})
	data := zxEntry(zxNow, dims, vals)

	// follower side: P tables, partition p each
	accepted := 0
	acceptedPid := -1
	var sortedKeys []string
	for p := 0; p < P; p++ {
		t, rs := zxInsertTable(core.Fields{core.PointsField, zxFieldA}, time.Hour)
		t.db.opts.NumPartitions = P
		t.db.opts.Partition = p
		t.PartitionBy = append([]string(nil), partitionBy...)
		_, sortedKeys = sortedPartitionKeys(t.PartitionBy) // as the follower does before announcing its keys
		if t.insert(data, true, &zxHash{}, wal.NewOffset(1, 1), 0) {
			accepted++
			acceptedPid = p
		}
		zxDrain(rs)
	}
	// leader side
	clock := vtime.NewVirtualClock(time.Time{})
	clock.Advance(zxNow)
	leader := &DB{opts: &DBOpts{NumPartitions: P}, clock: clock}
	leader.log = rsLog()
	keyString, _ := sortedPartitionKeys(append([]string(nil), partitionBy...))
	req := &partitionRequest{
		partitions: map[string]*partitionSpec{keyString: {keys: sortedKeys, tables: map[string]*tableSpec{}}},
		entry:      &walEntry{stream: "s", data: data, offset: wal.NewOffset(1, 1)},
	}
	mapped := make(chan *partitionsResult, 4)
	leader.mapPartitionRequest(&zxHash{}, req, mapped)
	vrtAssert(len(mapped) == 1, "mapPartitionRequest sends exactly one result (a dropped result would stall the pipeline)")
	if len(mapped) == 1 {
		res := <-mapped
		pid := res.partitions[keyString].pid
		vrtAssert(pid >= 0 && pid < P, "leader partition id is within [0, P)")
		vrtAssert(accepted == 1, "exactly one follower partition accepts the entry")
		vrtAssert(acceptedPid == pid, "the accepting follower partition is the one the leader computed")
	}
	vrtReach("R")
}

// ---- C12 -------------------------------------------------------------------------------------

//zx:group follow
//zx:replace (*github.com/getlantern/zenodb.table).processInserts zxRecordInserts

var (
	zxDelivered   map[*table][]*walRead
	zxCB          func(data []byte, newOffset wal.Offset, source int) error
	zxMakeFollows func(sources []int) map[int]*common.Follow
)

func zxRecordInserts(t *table, in chan *walRead, stop <-chan interface{}) {
	for {
		select {
		case r := <-in:
			zxDelivered[t] = append(zxDelivered[t], r)
		default:
			return
		}
	}
}

// C12.D / C12.F — the follower-side dedup callback of doFollowLeaders and makeFollows: with two
// tables whose prior offsets for the source are arbitrary, and three deliveries with arbitrary
// offsets (replays after a reconnect, duplicates and gaps are all choices of the order relations),
// each table is handed an entry iff its offset is After everything that table already accepted,
// so nothing is handed twice, acceptance is increasing, and the tables decide independently; the
// earliest offset requested from a leader is never above any table's own offset.
//
//zx:harness prop=C12 id=C12.D tier=quick env=follow
func zxC12Dedup() {
	zxDelivered = map[*table][]*walRead{}
	clock := vtime.NewVirtualClock(time.Time{})
	clock.Advance(zxNow)
	db := &DB{opts: &DBOpts{}, clock: clock, closing: make(chan interface{})}
	db.log = rsLog()
	db.opts.Follow = func(mf func(sources []int) map[int]*common.Follow, cb func(data []byte, newOffset wal.Offset, source int) error) {
		zxMakeFollows, zxCB = mf, cb
	}
	t1, _ := zxTable(core.Fields{core.PointsField, zxFieldA})
	t2, _ := zxTable(core.Fields{core.PointsField, zxFieldA})
	t1.db, t2.db = db, db
	prior := []wal.Offset{nil, nil}
	offsets := []common.OffsetsBySource{{}, {}}
	for i := range prior {
		if vrtShape("hasPrior"+zxItoa(i), 2) == 1 {
			prior[i] = zxOffset("prior" + zxItoa(i))
			offsets[i][0] = prior[i]
		}
	}
	db.doFollowLeaders("s", []*table{t1, t2}, offsets, map[string]*common.Partition{}, make(chan bool), make(chan interface{}))
	vrtAssert(zxCB != nil, "doFollowLeaders registers its callback through DBOpts.Follow")
	// C12.F: earliest offset per source
	follows := zxMakeFollows([]int{0})
	eo := follows[0].EarliestOffset
	for i := range prior {
		if prior[i] != nil {
			vrtAssert(eo == nil || !eo.After(prior[i]), "the earliest offset requested from the leader is not above table "+zxItoa(i)+"'s own offset")
		} else {
			// a table that has recorded nothing yet (new, or crashed before its first flush) needs
			// the stream from the start: the leader begins each table at max(its offset, EarliestOffset)
			vrtAssert(eo == nil, "table "+zxItoa(i)+" has no offset yet (never flushed), so the stream is requested from its start and not from a sibling table's offset")
		}
	}
	// deliveries
	deliv := []wal.Offset{zxOffset("d0"), zxOffset("d1"), zxOffset("d2")}
	for i, o := range deliv {
		err := zxCB([]byte{byte(i)}, o, 0)
		vrtAssert(err == nil, "the callback accepts delivery "+zxItoa(i))
	}
	vrtRunPending()
	for ti, t := range []*table{t1, t2} {
		// reference: running maximum
		high := prior[ti]
		var want []int
		for i, o := range deliv {
			if o.After(high) {
				want = append(want, i)
				high = o
			}
		}
		got := zxDelivered[t]
		vrtAssert(len(got) == len(want), "table "+zxItoa(ti)+" is handed exactly the entries that are After everything it accepted before")
		if len(got) == len(want) {
			for j := range want {
				vrtAssert(int(got[j].data[0]) == want[j] && got[j].source == 0, "table "+zxItoa(ti)+" receives the accepted entries in order")
			}
		}
	}
	vrtReach("C12.D")
}

// ---- C17 -------------------------------------------------------------------------------------

//zx:group coalesce
//zx:replace (*github.com/getlantern/zenodb.rowStore).iterate zxStubScan
//zx:replace context.WithDeadline zxWithDeadline

type zxDeadlineCtx struct {
	context.Context
	deadline time.Time
}

func (c *zxDeadlineCtx) Deadline() (time.Time, bool) { return c.deadline, true }
func (c *zxDeadlineCtx) Done() <-chan struct{}       { return nil }
func (c *zxDeadlineCtx) Err() error                  { return nil }

func zxWithDeadline(parent context.Context, d time.Time) (context.Context, context.CancelFunc) {
	return &zxDeadlineCtx{parent, d}, func() {}
}

var zxScanRows int

// zxStubScan feeds zxScanRows rows to the combined callback, honouring more=false and errors, as
// the real rowStore.iterate does (and like it, checking the deadline of the scan context).
func zxStubScan(rs *rowStore, ctx context.Context, outFields core.Fields, includeMemStore bool, onValue func(bytemap.ByteMap, []encoding.Sequence) (bool, error)) (common.OffsetsBySource, error) {
	guard := core.Guard(ctx)
	for r := 0; r < zxScanRows; r++ {
		vals := make([]encoding.Sequence, len(outFields))
		for i, f := range outFields {
			// a one-byte marker sequence identifying (row, field)
			vals[i] = encoding.Sequence{byte(r), f.Name[0]}
		}
		more, err := guard.ProceedAfter(onValue(bytemap.New(map[string]interface{}{"k": r}), vals))
		if err != nil {
			return nil, err
		}
		if !more {
			break
		}
	}
	return nil, nil
}

type zxQ struct {
	ctx    context.Context
	fields core.Fields
	stopAt int // stop (more=false) after this many rows; 0 = never
	failAt int // return an error at this row; 0 = never
	rows   [][]encoding.Sequence
	calls  int
}

// C17.C — doProcessIterations: each of the coalesced queries sees, for every row until it
// stopped, exactly the sequences of its own fields in its own order; a query that stopped is not
// called again and does not stop the others; and a query without a deadline completes even when
// a sibling's own error or deadline ends that sibling's scan (DESIGN §5 C17.C).
//
//zx:harness prop=C17 id=C17.C tier=quick env=coalesce shard=nq:1,fields0:5 nqmax=1 R=2 thorough.R=3 thorough.nqmax=2 thorough.shard=nq:2,fields0:5,fields1:5
func zxC17Coalesce() {
	zxScanRows = vrtParam("R", 3)
	t, _ := zxTable(core.Fields{core.PointsField, zxFieldA, zxFieldB, zxFieldC})
	pool := []core.Fields{{zxFieldA}, {zxFieldB, zxFieldA}, {zxFieldC, core.PointsField}, {zxFieldA, zxFieldB, zxFieldC}, nil}
	nq := vrtShape("nq", vrtParam("nqmax", 2)) + 2
	qs := make([]*zxQ, nq)
	var its []*iteration
	for i := range qs {
		q := &zxQ{fields: pool[vrtShape("fields"+zxItoa(i), len(pool))], ctx: context.Background()}
		expired := false
		switch vrtShape("behaviour"+zxItoa(i), 5) {
		case 1:
			q.stopAt = vrtShape("stopAt"+zxItoa(i), zxScanRows) + 1
		case 2:
			q.failAt = vrtShape("failAt"+zxItoa(i), zxScanRows) + 1
		case 3:
			// this query's deadline has already expired: like the real operators it stops itself
			// with ErrDeadlineExceeded after the first row it is handed
			q.ctx = &zxDeadlineCtx{context.Background(), time.Unix(1000000000, 0)}
			expired = true
		case 4:
			q.ctx = &zxDeadlineCtx{context.Background(), time.Unix(3000000000, 0)}
		}
		if expired {
			q.failAt = 1
		}
		qs[i] = q
		its = append(its, &iteration{
			t:         t,
			ctx:       q.ctx,
			outFields: q.fields,
			onValue: func(key bytemap.ByteMap, vals []encoding.Sequence) (bool, error) {
				q.calls++
				if q.failAt > 0 && q.calls == q.failAt {
					if _, hasDeadline := q.ctx.Deadline(); hasDeadline && core.Guard(q.ctx).TimedOut() {
						return false, core.ErrDeadlineExceeded
					}
					return false, errors.New("this query's own failure")
				}
				q.rows = append(q.rows, append([]encoding.Sequence(nil), vals...))
				if q.stopAt > 0 && q.calls == q.stopAt {
					return false, nil
				}
				return true, nil
			},
			offsetsCh: make(chan common.OffsetsBySource, 1),
			errCh:     make(chan error, 1),
		})
	}
	t.db.doProcessIterations(its)
	for i, q := range qs {
		err := <-its[i].errCh
		eff := q.fields
		if eff == nil {
			eff = t.fields
		}
		// what this query gets when it runs alone
		wantRows := zxScanRows
		wantErr := false
		if q.stopAt > 0 {
			wantRows = q.stopAt
		}
		if q.failAt > 0 {
			wantRows = q.failAt - 1
			wantErr = true
		}
		vrtAssert(len(q.rows) == wantRows, "query "+zxItoa(i)+" receives the rows it would receive alone ("+zxItoa(wantRows)+")")
		vrtAssert((err != nil) == wantErr, "query "+zxItoa(i)+" gets an error iff it would get one alone")
		for r, row := range q.rows {
			ok := len(row) == len(eff)
			for j := 0; ok && j < len(eff); j++ {
				ok = len(row[j]) == 2 && row[j][0] == byte(r) && row[j][1] == eff[j].Name[0]
			}
			vrtAssert(ok, "row "+zxItoa(r)+" of query "+zxItoa(i)+" holds exactly its own fields in its own order")
		}
	}
	vrtReach("C17.C")
}

// C14.Q / C07 — DB.getQueryable: without an explicit range the query window is derived from the
// database clock and the table's retention: until is the clock rounded up to the resolution and
// asOf = until − retention (rounded up), so no returned period ended more than one resolution
// before now − retention and the window reaches the current period (symbolic, unaligned clock;
// retention a symbolic number of periods).
//
//zx:harness prop=C14+C07 id=C14.Q tier=quick shard=res:2
func zxC14Queryable() {
	t, _ := zxTable(core.Fields{core.PointsField, zxFieldA})
	res := time.Second
	if vrtShape("res", 2) == 1 {
		res = time.Duration(1 << 30)
	}
	t.Resolution = res
	// an arbitrary instant = a grid instant plus an arbitrary offset inside the period
	nowT := vrtGridTime("nowBase", res).Add(time.Duration(vrtRange("nowOff", 0, int64(res)-1)))
	t.db.clock = vtime.NewVirtualClock(nowT)
	t.db.tables["t"] = t
	t.RetentionPeriod = time.Duration(vrtRange("retentionPeriods", 1, 1000)) * res
	q, err := t.db.getQueryable("t", func(fields core.Fields) (core.Fields, error) { return fields, nil }, false)
	vrtAssert(err == nil, "the table is queryable")
	if err != nil {
		return
	}
	until, asOf := q.GetUntil(), q.GetAsOf()
	vrtAssert(vrtAnd(!until.Before(nowT), until.Sub(nowT) < res), "until is the clock rounded up to the resolution")
	vrtAssert(until.Sub(asOf) == t.RetentionPeriod, "the window spans exactly the retention period")
	// the oldest period that can be returned ends at asOf + res > now - retention
	oldestEnd := asOf.Add(res)
	vrtAssert(oldestEnd.After(nowT.Add(-t.RetentionPeriod)), "no returned period ended at or before now - retention")
	vrtAssert(!asOf.Add(res).Before(nowT.Add(-t.RetentionPeriod)), "no returned period ended more than one resolution before now - retention")
	vrtReach("C14.Q")
}

type zxSeen struct {
	key  string
	cols []string // the bytes of every column, as delivered
}

func zxCollect(dst *[]zxSeen) func(bytemap.ByteMap, []encoding.Sequence) (bool, error) {
	return func(key bytemap.ByteMap, vals []encoding.Sequence) (bool, error) {
		k, _ := key.Get("k").(string)
		s := zxSeen{key: k}
		for _, v := range vals {
			s.cols = append(s.cols, string(v))
		}
		*dst = append(*dst, s)
		return true, nil
	}
}

// zxContent: the delivered rows without those whose every column is empty (such a row adds
// nothing to any aggregate and is dropped by flatten), as a comparable string.
func zxContent(rows []zxSeen) string {
	out := ""
	for _, r := range rows {
		empty := true
		for _, c := range r.cols {
			if len(c) > 0 {
				empty = false
			}
		}
		if empty {
			continue
		}
		out += r.key + "["
		for _, c := range r.cols {
			out += zxItoa(len(c)) + ":" + c + ","
		}
		out += "]"
	}
	return out
}

// C17.M — doProcessIterations over the real row store (real fileStore.iterate over a file
// written by the real flush, plus a memstore): two coalesced queries, each with its own field
// list and its own includeMemStore flag, each receive exactly the keys and column bytes they
// receive when the same query is processed alone on the same data (metamorphic: shared scan vs
// solo scan; rows whose requested columns are all empty are not compared).
//
//zx:harness prop=C17 id=C17.M tier=quick env=fs shard=f0:6
func zxC17RealStore() {
	zxFSReset()
	fields := core.Fields{core.PointsField, zxFieldA, zxFieldB}
	t, rs := zxTable(fields)
	// on disk: x (a only), y (b only); in memory: x (a again), z (b only), y (a only)
	zxInsert(rs, rs.memStore, "x", zxNow, map[string]float64{"a": 1}, 0, 10)
	zxInsert(rs, rs.memStore, "y", zxNow, map[string]float64{"b": 2}, 0, 20)
	rs.doProcessFlush(rs.memStore, false, false)
	zxInsert(rs, rs.memStore, "x", zxNow, map[string]float64{"a": 4}, 0, 30)
	zxInsert(rs, rs.memStore, "z", zxNow, map[string]float64{"b": 8}, 0, 40)
	zxInsert(rs, rs.memStore, "y", zxNow, map[string]float64{"a": 16}, 0, 50)
	pool := []core.Fields{{zxFieldA}, {zxFieldB}, {zxFieldB, zxFieldA}, {core.PointsField}, {core.PointsField, zxFieldA, zxFieldB}, nil}
	mk := func(i int, dst *[]zxSeen, f core.Fields, mem bool) *iteration {
		return &iteration{t: t, ctx: context.Background(), outFields: f, includeMemStore: mem, onValue: zxCollect(dst),
			offsetsCh: make(chan common.OffsetsBySource, 1), errCh: make(chan error, 1)}
	}
	f0 := pool[vrtShape("f0", len(pool))]
	f1 := pool[vrtShape("f1", len(pool))]
	m0 := vrtShape("mem0", 2) == 1
	m1 := vrtShape("mem1", 2) == 1
	var alone0, alone1, both0, both1 []zxSeen
	it := mk(0, &alone0, f0, m0)
	t.db.doProcessIterations([]*iteration{it})
	vrtAssert(<-it.errCh == nil, "query 0 alone completes")
	it = mk(1, &alone1, f1, m1)
	t.db.doProcessIterations([]*iteration{it})
	vrtAssert(<-it.errCh == nil, "query 1 alone completes")
	i0, i1 := mk(0, &both0, f0, m0), mk(1, &both1, f1, m1)
	t.db.doProcessIterations([]*iteration{i0, i1})
	vrtAssert(<-i0.errCh == nil && <-i1.errCh == nil, "both coalesced queries complete")
	ms := func(b bool) string {
		if b {
			return "with memstore"
		}
		return "disk only"
	}
	vrtAssert(zxContent(both0) == zxContent(alone0), "query 0 ("+ms(m0)+") coalesced with a "+ms(m1)+" query receives what it receives alone")
	vrtAssert(zxContent(both1) == zxContent(alone1), "query 1 ("+ms(m1)+") coalesced with a "+ms(m0)+" query receives what it receives alone")
	vrtAssert(len(alone0) > 0 && len(alone1) > 0, "each query alone sees rows")
	vrtReach("C17.M")
}

// C17.Q — the real DB.coalesceIteration: N scans requested inside one coalesce interval for up to
// three tables. Every batch handed to the processors holds scans of one table only
// (doProcessIterations scans iterations[0]'s table for the whole batch), the batch of the first
// scan holds exactly the waiting scans of its table, and every other scan is still queued —
// each exactly once.
//
//zx:harness prop=C17 id=C17.Q tier=quick N=4 thorough.N=6
func zxC17CoalesceQueue() {
	N := vrtParam("N", 4)
	t0, _ := zxTable(core.Fields{core.PointsField, zxFieldA})
	db := t0.db
	db.opts.IterationCoalesceInterval = time.Millisecond
	db.requestedIterations = make(chan *iteration, 1000)
	db.coalescedIterations = make(chan []*iteration, 16)
	tables := []*table{t0, {TableOpts: &TableOpts{Name: "t1"}, db: db}, {TableOpts: &TableOpts{Name: "t2"}, db: db}}
	its := make([]*iteration, N)
	for i := range its {
		its[i] = &iteration{t: tables[vrtShape("table"+zxItoa(i), len(tables))]}
	}
	for _, it := range its[1:] {
		db.requestedIterations <- it
	}
	db.coalesceIteration(its[0])
	seen := map[*iteration]int{}
	nBatches := 0
	for len(db.coalescedIterations) > 0 {
		batch := <-db.coalescedIterations
		nBatches++
		vrtAssert(len(batch) > 0, "no empty batch")
		for _, it := range batch {
			seen[it]++
			vrtAssert(it.t == batch[0].t, "a batch handed to the processors holds scans of a single table")
			if batch[0] == its[0] {
				vrtAssert(it.t == its[0].t, "the batch of the first scan holds scans of its table")
			}
		}
	}
	vrtAssert(nBatches >= 1 && seen[its[0]] == 1, "the first scan is handed to the processors")
	for len(db.requestedIterations) > 0 {
		it := <-db.requestedIterations
		seen[it]++
		vrtAssert(it.t != its[0].t, "a scan of the first scan's table that arrived inside the interval is not left waiting")
	}
	for i, it := range its {
		vrtAssert(seen[it] == 1, "scan "+zxItoa(i)+" is either in a batch or still queued, exactly once")
	}
	vrtReach("C17.Q")
}
