package zenodb

// Harnesses that drive the real rowStore.processInserts loop (T3, DESIGN §3.12): each message of
// the script is its own recorded goroutine; whenever the loop's select would block, the engine
// runs the next recorded goroutine, so the script order is the interleaving.

import (
	"time"

	"github.com/getlantern/bytemap"
	"github.com/getlantern/wal"
	"github.com/getlantern/zenodb/common"
	"github.com/getlantern/zenodb/core"
	"github.com/getlantern/zenodb/encoding"
)

type zxMsg struct {
	kind  string // insert | skip | alter | flush
	a, b  float64
	seq   int64
	key   string
	after bool // insert happened after the alter
}

func zxMkInsert(m zxMsg) *insert {
	k := bytemap.New(map[string]interface{}{"k": m.key})
	return &insert{key: k, vals: encoding.NewTSParams(zxNow, bytemap.NewFloat(map[string]float64{"a": m.a, "b": m.b})), metadata: k, offset: wal.NewOffset(1, m.seq), source: 0}
}

type zxState2 struct {
	a, b map[string]float64
	offs int64
}

func zxRecover2(fields core.Fields) (zxState2, bool) {
	t2, _ := zxTable(fields)
	rs2, offs, err := t2.openRowStore(&rowStoreOptions{dir: "/data/t"})
	st := zxState2{a: map[string]float64{}, b: map[string]float64{}}
	if err != nil {
		return st, false
	}
	if o := offs[0]; o != nil {
		st.offs = o.Position()
	}
	_, err = rs2.fileStore.iterate(fields, nil, false, false, func(key bytemap.ByteMap, cols []encoding.Sequence, raw []byte) (bool, error) {
		k, _ := key.Get("k").(string)
		for i, f := range fields {
			for p := 0; p < cols[i].NumPeriods(f.Expr.EncodedWidth()); p++ {
				v, _ := cols[i].ValueAt(p, f.Expr)
				switch f.Name {
				case "a":
					st.a[k] += v
				case "b":
					st.b[k] += v
				}
			}
		}
		return true, nil
	})
	return st, err == nil
}

func zxMapEq(x, y map[string]float64) bool {
	for k, v := range x {
		if v != y[k] {
			return false
		}
	}
	for k, v := range y {
		if v != x[k] {
			return false
		}
	}
	return true
}

// C15.P / C02.G — the real processInserts loop under a scripted interleaving of inserts, skipped
// entries, a schema change (adding field b) and forced flushes, optionally killed at a
// solver-chosen file-system operation: what a restarted process finds on disk reflects exactly
// the inserts up to the recovered offset, each once; field a keeps its values across the
// alteration; field b holds exactly the values of the points processed after the alteration.
//
//zx:harness prop=C15+C02+C03 id=P tier=quick env=fs shard=script:6 maxops=60 thorough.maxops=120
func zxC15ProcessInserts() {
	zxFSReset()
	oldFields := core.Fields{core.PointsField, zxFieldA}
	newFields := core.Fields{core.PointsField, zxFieldA, zxFieldB}
	t, rs := zxTable(oldFields)
	rs.inserts = make(chan *insert)
	rs.fieldUpdates = make(chan core.Fields)
	rs.forceFlushes = make(chan bool)
	rs.forceFlushCompletes = make(chan bool, 16)
	rs.opts.maxFlushLatency = time.Hour
	rs.opts.minFlushLatency = time.Millisecond
	stop := make(chan interface{})

	i1 := zxMsg{kind: "insert", key: "x", a: 1, b: 100, seq: 10}
	i2 := zxMsg{kind: "insert", key: "x", a: 2, b: 200, seq: 20}
	i3 := zxMsg{kind: "insert", key: "y", a: 4, b: 400, seq: 30}
	sk := zxMsg{kind: "skip", seq: 25}
	al := zxMsg{kind: "alter"}
	fl := zxMsg{kind: "flush"}
	scripts := [][]zxMsg{
		{i1, al, i2, fl},          // alter with data in the memstore, then more data
		{al, i1, i2, fl},          // alter on an empty memstore
		{i1, fl, al, i2, i3, fl},  // flushed, altered, more data
		{i1, fl, sk, fl, i3, fl},  // offset-only persistence between two data flushes
		{i1, i2, al, fl, i3},      // last insert only reaches disk with the stop flush
		{i1, zxMsg{kind: "skip", seq: 15}, al, fl, i2, fl},
	}
	scriptIdx := vrtShape("script", len(scripts))
	script := scripts[scriptIdx]
	altered := false
	var inserts []zxMsg
	for _, m := range script {
		m := m
		switch m.kind {
		case "insert":
			m.after = altered
			inserts = append(inserts, m)
			go func() { rs.inserts <- zxMkInsert(m) }()
		case "skip":
			inserts = append(inserts, m)
			go func() { rs.inserts <- &insert{nil, nil, nil, wal.NewOffset(1, m.seq), 0} }()
		case "alter":
			altered = true
			go func() {
				t.fields = newFields // applyFields sets t.fields, then hands the list to the row store
				rs.fieldUpdates <- newFields
			}()
		case "flush":
			go func() { rs.forceFlushes <- true }()
		}
	}
	go func() { close(stop) }()

	crashAt := vrtShape("crashAt", vrtParam("maxops", 60)) // 0 = no crash
	if crashAt > 0 {
		zxCrashAt = crashAt
	}
	crashed := vrtCatchCrash(func() {
		rs.processInserts(make(common.OffsetsBySource), stop)
	})
	if crashAt > 0 && !crashed {
		return // fewer file-system steps than crashAt
	}
	keepMode := 0
	if crashed {
		keepMode = vrtShape("keep", 3)
	}
	zxAfterCrash(func(name string, unsynced int) int {
		switch keepMode {
		case 0:
			return 0
		case 1:
			return unsynced / 2
		}
		return unsynced
	})
	fields := newFields
	got, ok := zxRecover2(fields)
	vrtAssert(ok, "the row store reopens and scans (crash step "+zxItoa(crashAt)+")")
	if !ok {
		return
	}
	// expected: the fold of every message up to the recovered offset
	want := zxState2{a: map[string]float64{}, b: map[string]float64{}, offs: got.offs}
	known := got.offs == 0
	for _, m := range inserts {
		if m.seq == got.offs {
			known = true
		}
		if m.seq > got.offs || m.kind != "insert" {
			continue
		}
		want.a[m.key] += m.a
		if m.after {
			want.b[m.key] += m.b
		}
	}
	vrtAssert(known, "the recovered offset is that of a processed entry")
	if !crashed {
		vrtAssert(got.offs == inserts[len(inserts)-1].seq, "after a clean stop everything processed is on disk")
	}
	vrtAssert(zxMapEq(got.a, want.a), "field a on disk = fold of exactly the inserts up to the recovered offset (script "+zxItoa(scriptIdx)+", crash step "+zxItoa(crashAt)+")")
	vrtAssert(zxMapEq(got.b, want.b), "field b on disk = fold of exactly the inserts processed after the alteration, up to the recovered offset (crash step "+zxItoa(crashAt)+")")
	vrtReach("P")
}
