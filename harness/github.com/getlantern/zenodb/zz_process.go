package zenodb

// Harnesses that drive the real rowStore.processInserts loop (T3, DESIGN §3.12): each message of
// the script is its own recorded goroutine; whenever the loop's select would block, the engine
// runs the next recorded goroutine, so the script order is the interleaving.

import (
	"time"

	"github.com/getlantern/bytemap"
	"github.com/getlantern/wal"
	"github.com/getlantern/zenodb/common"
	"github.com/getlantern/zenodb/core"
	"github.com/getlantern/zenodb/encoding"
)

type zxMsg struct {
	kind  string // insert | skip | alter | flush
	a, b  float64
	seq   int64
	key   string
	after bool // insert happened after the alter
}

func zxMkInsert(m zxMsg) *insert {
	k := bytemap.New(map[string]interface{}{"k": m.key})
	return &insert{key: k, vals: encoding.NewTSParams(zxNow, bytemap.NewFloat(map[string]float64{"a": m.a, "b": m.b})), metadata: k, offset: wal.NewOffset(1, m.seq), source: 0}
}

type zxState2 struct {
	a, b map[string]float64
	offs int64
}

func zxRecover2(fields core.Fields) (zxState2, bool) {
	t2, _ := zxTable(fields)
	rs2, offs, err := t2.openRowStore(&rowStoreOptions{dir: "/data/t"})
	st := zxState2{a: map[string]float64{}, b: map[string]float64{}}
	if err != nil {
		return st, false
	}
	if o := offs[0]; o != nil {
		st.offs = o.Position()
	}
	_, err = rs2.fileStore.iterate(fields, nil, false, false, func(key bytemap.ByteMap, cols []encoding.Sequence, raw []byte) (bool, error) {
		k, _ := key.Get("k").(string)
		for i, f := range fields {
			for p := 0; p < cols[i].NumPeriods(f.Expr.EncodedWidth()); p++ {
				v, _ := cols[i].ValueAt(p, f.Expr)
				switch f.Name {
				case "a":
					st.a[k] += v
				case "b":
					st.b[k] += v
				}
			}
		}
		return true, nil
	})
	return st, err == nil
}

func zxMapEq(x, y map[string]float64) bool {
	for k, v := range x {
		if v != y[k] {
			return false
		}
	}
	for k, v := range y {
		if v != x[k] {
			return false
		}
	}
	return true
}

// C15.P / C02.G — the real processInserts loop under a scripted interleaving of inserts, skipped
// entries, a schema change (adding field b) and forced flushes, optionally killed at a
// solver-chosen file-system operation: what a restarted process finds on disk reflects exactly
// the inserts up to the recovered offset, each once; field a keeps its values across the
// alteration; field b holds exactly the values of the points processed after the alteration.
//
//zx:harness prop=C15+C02+C03 id=P tier=quick env=fs shard=script:6,redefine:2 maxops=60 thorough.maxops=120
func zxC15ProcessInserts() {
	zxFSReset()
	oldFields := core.Fields{core.PointsField, zxFieldA}
	newFields := core.Fields{core.PointsField, zxFieldA, zxFieldB}
	if vrtShape("redefine", 2) == 1 {
		// the alteration keeps the name b but changes its definition: a removal plus an addition,
		// the new b starts empty although the old b has values in memory and on disk
		oldFields = core.Fields{core.PointsField, zxFieldA, zxFieldB}
		newFields = core.Fields{core.PointsField, zxFieldA, zxFieldB2}
	}
	t, rs := zxTable(oldFields)
	rs.inserts = make(chan *insert)
	rs.fieldUpdates = make(chan core.Fields)
	rs.forceFlushes = make(chan bool)
	rs.forceFlushCompletes = make(chan bool, 16)
	rs.opts.maxFlushLatency = time.Hour
	rs.opts.minFlushLatency = time.Millisecond
	stop := make(chan interface{})

	i1 := zxMsg{kind: "insert", key: "x", a: 1, b: 100, seq: 10}
	i2 := zxMsg{kind: "insert", key: "x", a: 2, b: 200, seq: 20}
	i3 := zxMsg{kind: "insert", key: "y", a: 4, b: 400, seq: 30}
	sk := zxMsg{kind: "skip", seq: 25}
	al := zxMsg{kind: "alter"}
	fl := zxMsg{kind: "flush"}
	scripts := [][]zxMsg{
		{i1, al, i2, fl},          // alter with data in the memstore, then more data
		{al, i1, i2, fl},          // alter on an empty memstore
		{i1, fl, al, i2, i3, fl},  // flushed, altered, more data
		{i1, fl, sk, fl, i3, fl},  // offset-only persistence between two data flushes
		{i1, i2, al, fl, i3},      // last insert only reaches disk with the stop flush
		{i1, zxMsg{kind: "skip", seq: 15}, al, fl, i2, fl},
	}
	scriptIdx := vrtShape("script", len(scripts))
	script := scripts[scriptIdx]
	altered := false
	var inserts []zxMsg
	for _, m := range script {
		m := m
		switch m.kind {
		case "insert":
			m.after = altered
			inserts = append(inserts, m)
			go func() { rs.inserts <- zxMkInsert(m) }()
		case "skip":
			inserts = append(inserts, m)
			go func() { rs.inserts <- &insert{offset: wal.NewOffset(1, m.seq), source: 0} }()
		case "alter":
			altered = true
			go func() {
				t.fields = newFields // applyFields sets t.fields, then hands the list to the row store
				rs.fieldUpdates <- newFields
			}()
		case "flush":
			go func() { rs.forceFlushes <- true }()
		}
	}
	go func() { close(stop) }()

	crashAt := vrtShape("crashAt", vrtParam("maxops", 60)) // 0 = no crash
	if crashAt > 0 {
		zxCrashAt = crashAt
	}
	crashed := vrtCatchCrash(func() {
		rs.processInserts(make(common.OffsetsBySource), stop)
	})
	if crashAt > 0 && !crashed {
		return // fewer file-system steps than crashAt
	}
	keepMode := 0
	if crashed {
		keepMode = vrtShape("keep", 3)
	}
	zxAfterCrash(func(name string, unsynced int) int {
		switch keepMode {
		case 0:
			return 0
		case 1:
			return unsynced / 2
		}
		return unsynced
	})
	fields := newFields
	got, ok := zxRecover2(fields)
	vrtAssert(ok, "the row store reopens and scans (crash step "+zxItoa(crashAt)+")")
	if !ok {
		return
	}
	// expected: the fold of every message up to the recovered offset
	want := zxState2{a: map[string]float64{}, b: map[string]float64{}, offs: got.offs}
	known := got.offs == 0
	for _, m := range inserts {
		if m.seq == got.offs {
			known = true
		}
		if m.seq > got.offs || m.kind != "insert" {
			continue
		}
		want.a[m.key] += m.a
		if m.after {
			want.b[m.key] += m.b
		}
	}
	vrtAssert(known, "the recovered offset is that of a processed entry")
	if !crashed {
		vrtAssert(got.offs == inserts[len(inserts)-1].seq, "after a clean stop everything processed is on disk")
	}
	// progress that a completed forced flush has made durable is never taken back: a restart must
	// not resume before the last entry processed ahead of that flush (an entry that the WHERE in
	// force at the time rejected would otherwise be judged again, by a WHERE changed since)
	completed := len(rs.forceFlushCompletes)
	durable, lastSeq, nFlush := int64(0), int64(0), 0
	for _, m := range script {
		switch m.kind {
		case "insert", "skip":
			lastSeq = m.seq
		case "flush":
			nFlush++
			if nFlush <= completed {
				durable = lastSeq
			}
		}
	}
	vrtAssert(got.offs >= durable, "a restart does not resume before the entries covered by a completed flush (script "+zxItoa(scriptIdx)+", "+zxItoa(completed)+" completed flushes, crash step "+zxItoa(crashAt)+")")
	vrtAssert(zxMapEq(got.a, want.a), "field a on disk = fold of exactly the inserts up to the recovered offset (script "+zxItoa(scriptIdx)+", crash step "+zxItoa(crashAt)+")")
	vrtAssert(zxMapEq(got.b, want.b), "field b on disk = fold of exactly the inserts processed after the alteration, up to the recovered offset (crash step "+zxItoa(crashAt)+")")
	vrtReach("P")
}

// zxInsertVals: the values of field "a" that one row-store insert applies.
func zxInsertVals(in *insert) []float64 {
	var out []float64
	all := append([]encoding.TSParams{in.vals}, in.moreVals...)
	for _, tsp := range all {
		_, params := tsp.TimeAndParams()
		if v, ok := params.Get("a"); ok {
			out = append(out, v)
		}
	}
	return out
}

// zxArrayParts runs the real table.doInsert on an ordinary point (WAL offset 5) and on a point
// whose value is an array of n numbers (offset 10) and captures the row-store inserts it sends.
func zxArrayParts(t *table, rs *rowStore) (parts []*insert, produced map[int64]float64, count map[int64]int, arr []float64) {
	rs.inserts = make(chan *insert, 64)
	n := vrtShape("elems", 3) + 1
	arr = make([]float64, n)
	for i := range arr {
		arr[i] = float64(int(1) << uint(i)) // distinct powers of two: a sum identifies the multiset
	}
	dims := bytemap.New(map[string]interface{}{"k": "x"})
	vrtAssert(t.doInsert(zxNow, dims, bytemap.New(map[string]interface{}{"a": 64.0}), wal.NewOffset(1, 5), 0), "the plain point is accepted")
	vrtAssert(t.doInsert(zxNow, dims, bytemap.New(map[string]interface{}{"a": arr}), wal.NewOffset(1, 10), 0), "the array-valued point is accepted")
	produced = map[int64]float64{} // per WAL offset: the sum of the values handed to the row store
	count = map[int64]int{}
	for len(rs.inserts) > 0 {
		p := <-rs.inserts
		parts = append(parts, p)
		for _, v := range zxInsertVals(p) {
			produced[p.offset.Position()] += v
			count[p.offset.Position()]++
		}
	}
	vrtAssert(len(parts) >= 2, "doInsert produced row-store inserts")
	return
}

// C01.A — a point whose value is an array of n numbers contributes exactly those n values, each
// once (and an ordinary point exactly its one value): what the real table.doInsert hands to the
// row store, and what the real processInserts loop has put on disk after a clean stop.
//
//zx:harness prop=C01 id=C01.A tier=quick env=fs
func zxC01ArrayInsert() {
	zxFSReset()
	fields := core.Fields{core.PointsField, zxFieldA}
	t, rs := zxTable(fields)
	parts, produced, count, arr := zxArrayParts(t, rs)
	n := len(arr)
	total := 0.0
	for _, v := range arr {
		total += v
	}
	vrtAssert(count[5] == 1 && produced[5] == 64, "the plain point reaches the row store once")
	vrtAssert(count[10] == n && produced[10] == total, "an array of "+zxItoa(n)+" values reaches the row store as exactly those values, each once")
	rs.inserts = make(chan *insert)
	rs.opts.maxFlushLatency = time.Hour
	rs.opts.minFlushLatency = time.Millisecond
	stop := make(chan interface{})
	for _, p := range parts {
		p := p
		go func() { rs.inserts <- p }()
	}
	go func() { close(stop) }()
	rs.processInserts(make(common.OffsetsBySource), stop)
	got, ok := zxRecover2(fields)
	vrtAssert(ok && got.offs == 10, "after a clean stop everything processed is on disk")
	vrtAssert(got.a["x"] == 64+total, "SUM on disk = the plain value plus every element of the array, each once ("+zxItoa(n)+" elements)")
	vrtReach("C01.A")
}

// C02.A — the same two entries through the real processInserts loop under a scripted
// interleaving in which a flush (timer or forced — the select may pick it between any two
// receives) lands after the j-th row-store insert, and the process is killed at a solver-chosen
// later file-system operation or stopped cleanly; what a restart finds must hold everything
// doInsert produced for an entry or nothing of it, according to the recovered offset (an entry
// at or below the offset is not replayed). Whether doInsert produced the right values is C01.A.
//
//zx:harness prop=C02 id=C02.A tier=quick env=fs shard=elems:3 maxops=40 thorough.maxops=80
func zxC02ArrayInsert() {
	zxFSReset()
	fields := core.Fields{core.PointsField, zxFieldA}
	t, rs := zxTable(fields)
	parts, produced, _, arr := zxArrayParts(t, rs)
	n := len(arr)

	rs.inserts = make(chan *insert)
	rs.forceFlushes = make(chan bool)
	rs.forceFlushCompletes = make(chan bool, 16)
	rs.opts.maxFlushLatency = time.Hour
	rs.opts.minFlushLatency = time.Millisecond
	stop := make(chan interface{})
	flushAfter := vrtShape("flushAfter", len(parts)+1) // 0 = no flush inside the script
	for i, p := range parts {
		p := p
		go func() { rs.inserts <- p }()
		if flushAfter == i+1 {
			go func() { rs.forceFlushes <- true }()
		}
	}
	go func() { close(stop) }()
	crashAt := vrtShape("crashAt", vrtParam("maxops", 40)) // 0 = clean stop
	if crashAt > 0 {
		zxCrashAt = crashAt
	}
	crashed := vrtCatchCrash(func() {
		rs.processInserts(make(common.OffsetsBySource), stop)
	})
	if crashAt > 0 && !crashed {
		return
	}
	keepMode := 0
	if crashed {
		keepMode = vrtShape("keep", 3)
	}
	zxAfterCrash(func(name string, unsynced int) int {
		switch keepMode {
		case 0:
			return 0
		case 1:
			return unsynced / 2
		}
		return unsynced
	})
	got, ok := zxRecover2(fields)
	vrtAssert(ok, "the row store reopens and scans (crash step "+zxItoa(crashAt)+")")
	if !ok {
		return
	}
	want := 0.0
	if got.offs >= 5 {
		want += produced[5]
	}
	if got.offs >= 10 {
		want += produced[10]
	}
	vrtAssert(got.offs == 0 || got.offs == 5 || got.offs == 10, "the recovered offset is that of a processed entry")
	if !crashed {
		vrtAssert(got.offs == 10, "after a clean stop everything processed is on disk")
	}
	vrtAssert(got.a["x"] == want, "disk holds all values of each entry up to the recovered offset and nothing of later entries ("+zxItoa(n)+" elements, flush after insert "+zxItoa(flushAfter)+", crash step "+zxItoa(crashAt)+")")
	vrtReach("C02.A")
}
