package zenodb

// C02.L — where a restarted table resumes reading the WAL. The real DB.CreateTable is run on a
// table directory left by an earlier run (a filestore, written by the real flush, whose header
// holds the offset (S1, p) of the last entry the flush covered); the call that hands the start
// offset to the WAL reader, table.startWALProcessing, is intercepted (group "restart") and the
// offset recorded. The WAL directory is modelled by the documented contract of
// wal.NewReader(offset): reading starts in the first segment whose sequence number (creation time
// in µs) is >= offset.FileSequence(), at offset.Position() if the sequence is equal, at 0
// otherwise. Segment S1, created at an arbitrary instant before the restart, is still the newest
// one and holds, after position p, an acknowledged entry that no flush covered. Symbolic: S1,
// the restart instant (µs grid), p. Obligation: the reader starts in S1 at exactly p — not later
// (the entry would never be applied) and not earlier (covered entries would be applied twice).

import (
	"time"

	"github.com/getlantern/golog"
	"github.com/getlantern/vtime"
	"github.com/getlantern/wal"
	"github.com/getlantern/zenodb/common"
	"github.com/getlantern/zenodb/core"
)

//zx:group restart
//zx:replace (*github.com/getlantern/zenodb.table).startWALProcessing zxStartWAL
//zx:replace (*github.com/getlantern/zenodb.table).startFollowing zxStartFollowing

var zxStartOffset wal.Offset
var zxStartCalled bool

func zxStartWAL(t *table, walOffset wal.Offset) error {
	zxStartOffset = walOffset
	zxStartCalled = true
	return nil
}

// zxStartFollowing: a follower hands its per-leader offsets on to the subscription it sends to the
// leaders (makeFollows requests the lowest of its tables' offsets, the leader's followWAL opens
// wal.NewReader at it): leader 0's offset is recorded.
func zxStartFollowing(t *table, offsetsBySource common.OffsetsBySource) {
	zxStartOffset = offsetsBySource[0]
	zxStartCalled = true
}

// C02.L covers a stand-alone node and (C12.L) a follower of a cluster: the same offset
// computation feeds the follower's subscription to its leader.
//
//zx:harness prop=C02+C12 id=C02.L tier=quick env=fs,restart shard=backfill:2,follower:2
func zxC02RestartOffset() {
	zxFSReset()
	zxStartCalled = false
	retention := time.Hour
	// the earlier run: one insert covered by a flush; its WAL offset is (S1, p)
	fields := core.Fields{core.PointsField, zxFieldA}
	_, rs := zxTable(fields)
	s1 := vrtRange("s1", 1500000000000000, 1600000000000000) // µs since the epoch
	p := vrtRange("p", 1, 1<<40)
	zxInsert(rs, rs.memStore, "x", zxNow, map[string]float64{"a": 1}, 0, 0)
	rs.memStore.offsetsBySource[0] = wal.NewOffset(s1, p)
	rs.doProcessFlush(rs.memStore, false, false)

	// the restart, at an arbitrary later instant (up to ~3 years after S1 was created)
	upUs := vrtRange("uptimeMicros", 0, 100000000000000)
	now := time.Unix(0, 0).Add(time.Duration(s1+upUs) * time.Microsecond)
	clock := vtime.NewVirtualClock(time.Time{})
	clock.Advance(now)
	db := &DB{opts: &DBOpts{Dir: "/data"}, clock: clock, Panic: func(e interface{}) { panic(e) }, tables: map[string]*table{},
		streams: map[string]*wal.WAL{}, closing: make(chan interface{}), log: golog.LoggerFor("zxdb")}
	opts := &TableOpts{Name: "t", RetentionPeriod: retention, SQL: "SELECT SUM(a) AS a FROM inbound GROUP BY period(1s)"}
	if vrtShape("backfill", 2) == 1 {
		opts.Backfill = 10 * time.Minute
	}
	if vrtShape("follower", 2) == 1 {
		db.opts.Follow = func(f func(sources []int) map[int]*common.Follow, cb func(data []byte, newOffset wal.Offset, source int) error) {}
	}
	err := db.CreateTable(opts)
	vrtAssert(err == nil, "the table of the earlier run is re-created")
	vrtAssert(zxStartCalled, "WAL processing is started")
	if err != nil || !zxStartCalled {
		return
	}
	o := zxStartOffset
	vrtAssert(o != nil, "a start offset is handed to the WAL reader")
	if o == nil {
		return
	}
	// contract of wal.NewReader: S1 is read iff its sequence >= the start offset's
	limitUs := int64(retention / time.Microsecond)
	what := "retention period"
	if opts.Backfill > 0 && opts.Backfill < retention {
		limitUs = int64(opts.Backfill / time.Microsecond)
		what = "backfill depth"
	}
	if upUs > limitUs {
		vrtAssert(o.FileSequence() <= s1, "the reader does not skip segment S1, which holds an acknowledged entry no flush has covered (restart more than the "+what+" after S1 was created)")
	} else {
		vrtAssert(o.FileSequence() <= s1, "the reader does not skip segment S1, which holds an acknowledged entry no flush has covered (restart within the "+what+" of S1's creation)")
	}
	if o.FileSequence() == s1 {
		vrtAssert(o.Position() == p, "inside S1 reading resumes exactly after the last entry covered by the flush")
	} else {
		vrtAssert(false, "reading starts before S1: entries covered by the flush are applied again")
	}
	vrtReach("C02.L")
}
