package zenodb

// Storage-layer harnesses (row_store.go, table.go) over the file-system model.

import (
	"errors"
	"strconv"
	"time"

	"github.com/getlantern/bytemap"
	"github.com/getlantern/golog"
	"github.com/getlantern/vtime"
	"github.com/getlantern/wal"
	"github.com/getlantern/goexpr"
	"github.com/getlantern/zenodb/common"
	"github.com/getlantern/zenodb/core"
	"github.com/getlantern/zenodb/encoding"
	"github.com/getlantern/zenodb/expr"
	"github.com/getlantern/zenodb/sql"
)

func zxItoa(i int) string { return strconv.Itoa(i) }

// zxPipeField: a conditional field whose text contains the character that separates the field
// descriptions in a filestore header: IF(m = 'x|y', SUM(b)) AS p. No harness point has dimension
// m, so p never holds a value; what matters is what its text does to the fields next to it.
func zxPipeField() core.Field {
	cond, _ := goexpr.Binary("=", goexpr.Param("m"), goexpr.Constant("x|y"))
	return core.NewField("p", expr.IF(cond, expr.SUM(expr.FIELD("b"))))
}

var (
	zxFieldA = core.NewField("a", expr.SUM(expr.FIELD("a")))
	zxFieldB = core.NewField("b", expr.SUM(expr.FIELD("b")))
	// a field that keeps the name b but is defined by a different expression (same values): to
	// the store it is another field — altering b into it is a removal plus an addition
	zxFieldB2 = core.NewField("b", expr.SUM(expr.MULT(expr.FIELD("b"), expr.CONST(1))))
	zxFieldC = core.NewField("c", expr.MAX(expr.FIELD("c")))
	zxNow    = time.Unix(1500000000, 0)
)

// zxTable builds a table with a row store directly (skipping CreateTable: no WAL, no goroutines).
func zxTable(fields core.Fields) (*table, *rowStore) {
	clock := vtime.NewVirtualClock(time.Time{})
	clock.Advance(zxNow)
	db := &DB{opts: &DBOpts{}, clock: clock, Panic: func(e interface{}) { panic(e) }, tables: map[string]*table{}, log: golog.LoggerFor("zxdb")}
	t := &table{
		TableOpts: &TableOpts{Name: "t", RetentionPeriod: time.Hour},
		Query:     sql.Query{Resolution: time.Second},
		fields:    fields,
		db:        db,
		log:       golog.LoggerFor("t"),
	}
	rs := &rowStore{t: t, fields: fields, opts: &rowStoreOptions{dir: "/data/t"}, iterationsInProgress: make(map[string]int)}
	rs.fileStore = &fileStore{t: t, rs: rs, fields: fields, filename: ""}
	t.rowStore = rs
	rs.memStore = rs.newMemStore(make(common.OffsetsBySource))
	return t, rs
}

// zxInsert is the body of `case insert := <-rs.inserts` of processInserts (row_store.go:287-295),
// replicated because it is inline in a select loop.
func zxInsert(rs *rowStore, ms *memstore, key string, ts time.Time, vals map[string]float64, source int, seq int64) {
	ms.offsetsBySource[source] = wal.NewOffset(1, seq)
	ms.offsetChanged = true
	k := bytemap.New(map[string]interface{}{"k": key})
	ms.tree.Update(k, nil, encoding.NewTSParams(ts, bytemap.NewFloat(vals)), k)
	rs.t.updateHighWaterMarkMemory(ts.UnixNano())
}

type zxRow struct {
	key  string
	cols []encoding.Sequence
}

func zxScan(rs *rowStore, out core.Fields, ms *memstore, stopAt int, failAt int) ([]zxRow, common.OffsetsBySource, error) {
	var rows []zxRow
	n := 0
	offs, err := rs.fileStore.iterate(out, ms, false, false, func(key bytemap.ByteMap, cols []encoding.Sequence, raw []byte) (bool, error) {
		if n == failAt {
			return false, errScan
		}
		k, _ := key.Get("k").(string)
		cp := make([]encoding.Sequence, len(cols))
		copy(cp, cols)
		rows = append(rows, zxRow{k, cp})
		n++
		if n == stopAt {
			return false, nil
		}
		return true, nil
	})
	return rows, offs, err
}

var errScan = errors.New("callback failed")

func zxVal(seq encoding.Sequence, f core.Field) (float64, bool) {
	if len(seq) == 0 {
		return 0, false
	}
	return seq.ValueAt(0, f.Expr)
}

// C03.I / C15.I — real fileStore.iterate over a file written by the real flush under schema
// F_old, a memstore under schema F_new (the table was altered in between), and a requested field
// list chosen among sub-lists / permutations of F_new: every key that has a requested column on
// disk or in memory is delivered exactly once, each column = file value (+) memory value, and the
// scan does not end early without an error (DESIGN §5 C03.I, C15.I).
//
//zx:harness prop=C03+C15 id=I tier=quick mode=real env=fs shard=old:4,new:4
func zxC15Iterate() {
	zxC15IterateBody([]core.Fields{
		{core.PointsField, zxFieldA},
		{core.PointsField, zxFieldA, zxFieldB},
		{zxFieldB, core.PointsField, zxFieldA}, // reordered
		{core.PointsField, zxFieldA, zxFieldB2}, // b redefined under the same name
	}, "I", false)
}

// I.P — the same obligations for schemas that contain a field whose text holds the character
// that separates the field descriptions in a filestore header (IF(m = 'x|y', SUM(b)) AS p, placed
// ahead of field a): what is stored for a must not depend on how its neighbour is spelled.
//
//zx:harness prop=C03+C15 id=I.P tier=quick mode=real env=fs shard=old:2,new:2
func zxC15IteratePipe() {
	zxC15IterateBody([]core.Fields{
		{core.PointsField, zxFieldA},
		{core.PointsField, zxPipeField(), zxFieldA},
	}, "I.P", true)
}

func zxC15IterateBody(pool []core.Fields, reach string, skipPlainPair bool) {
	zxFSReset()
	oi, ni := vrtShape("old", len(pool)), vrtShape("new", len(pool))
	if skipPlainPair && oi == 0 && ni == 0 {
		vrtReach(reach)
		return // covered by I
	}
	oldFields := pool[oi]
	newFields := pool[ni]
	t, rs := zxTable(oldFields)
	va1, vb1 := vrtFloat64("va1"), vrtFloat64("vb1")
	va2, vb2 := vrtFloat64("va2"), vrtFloat64("vb2")
	vrtAssume(vrtAnd(vrtAnd(vrtFinite(va1), vrtFinite(vb1)), vrtAnd(vrtFinite(va2), vrtFinite(vb2))))
	// before the alter: keys x and y reach the disk
	zxInsert(rs, rs.memStore, "x", zxNow, map[string]float64{"a": va1, "b": vb1}, 0, 10)
	zxInsert(rs, rs.memStore, "y", zxNow, map[string]float64{"a": 1, "b": 2}, 0, 20)
	rs.doProcessFlush(rs.memStore, false, false)
	// ALTER TABLE: what the fieldUpdates case of processInserts does after the flush
	t.fields = newFields
	rs.fields = newFields
	rs.fileStore.fields = newFields // doProcessFlush builds the next fileStore with rs.fields; a query sees fs.fields = table fields
	rs.memStore = rs.newMemStore(rs.memStore.offsetsBySource)
	// after the alter: x again (merges with disk), z only in memory
	zxInsert(rs, rs.memStore, "x", zxNow, map[string]float64{"a": va2, "b": vb2}, 0, 30)
	zxInsert(rs, rs.memStore, "z", zxNow, map[string]float64{"a": 3, "b": 4}, 0, 40)
	// requested fields
	subsets := []core.Fields{{zxFieldA}, {zxFieldB}, {zxFieldA, zxFieldB}, {zxFieldB, zxFieldA}, {core.PointsField, zxFieldB}, nil, {zxFieldB2}, {zxFieldB2, zxFieldA}}
	si := vrtShape("subset", len(subsets))
	out := subsets[si]
	eff := out
	if eff == nil {
		eff = newFields
	}
	// a requested field must exist in the current table
	for _, f := range eff {
		found := false
		for _, nf := range newFields {
			if nf.Equals(f) {
				found = true
			}
		}
		if !found {
			return
		}
	}
	rows, _, err := zxScan(rs, out, rs.memStore.copy(), -1, -1)
	vrtAssert(err == nil, "a complete scan returns no error")
	has := func(fs core.Fields, f core.Field) bool {
		for _, x := range fs {
			if x.Equals(f) {
				return true
			}
		}
		return false
	}
	count := map[string]int{}
	for _, r := range rows {
		count[r.key]++
	}
	// x: on disk under oldFields, in memory under newFields
	// y: on disk only; z: in memory only
	anyOnDisk, anyInMem := false, false
	for _, f := range eff {
		anyOnDisk = anyOnDisk || has(oldFields, f)
		anyInMem = anyInMem || has(newFields, f)
	}
	vrtAssert(count["x"] == 1, "key x (disk + memory) is delivered exactly once for requested fields #"+zxItoa(si))
	if anyInMem {
		vrtAssert(count["z"] == 1, "memory-only key z is delivered exactly once for requested fields #"+zxItoa(si))
	}
	if anyOnDisk {
		vrtAssert(count["y"] == 1, "disk-only key y is delivered exactly once for requested fields #"+zxItoa(si))
	}
	vrtAssert(count["y"] <= 1 && count["z"] <= 1, "no key is delivered twice")
	for _, r := range rows {
		if r.key != "x" {
			continue
		}
		for i, f := range eff {
			got, set := zxVal(r.cols[i], f)
			var want float64
			wantSet := false
			switch f.Name {
			case "a":
				if has(oldFields, f) {
					want, wantSet = va1, true
				}
				want, wantSet = want+va2, true
			case "b":
				if has(oldFields, f) {
					want, wantSet = vb1, true
				}
				want, wantSet = want+vb2, true
			case "_points":
				want, wantSet = 2, true
			}
			vrtAssert(set == wantSet, "column "+f.Name+" of key x is set iff it has data")
			vrtAssert(vrtImplies(set, vrtFloatEq(got, want)), "column "+f.Name+" of key x = value kept on disk (+) value inserted after the alter")
		}
	}
	// C15: "... across any later flushes": flush once more under the new schema (rows of y are
	// untouched by the memstore and eligible for the raw pass-through) and read the disk alone
	rs.doProcessFlush(rs.memStore, false, false)
	rows2, _, err2 := zxScan(rs, nil, nil, -1, -1)
	vrtAssert(err2 == nil, "the disk-only scan after the second flush returns no error")
	seen := map[string]int{}
	for _, r := range rows2 {
		seen[r.key]++
		for i, f := range newFields {
			got, set := zxVal(r.cols[i], f)
			var want float64
			wantSet := false
			switch r.key + "/" + f.Name {
			case "x/a":
				want, wantSet = va1+va2, true
			case "x/b":
				if has(oldFields, f) {
					want = vb1
				}
				want, wantSet = want+vb2, true
			case "y/a":
				want, wantSet = 1, true
			case "y/b":
				if has(oldFields, f) {
					want, wantSet = 2, true
				}
			case "z/a":
				want, wantSet = 3, true
			case "z/b":
				want, wantSet = 4, true
			case "x/_points":
				want, wantSet = 2, true
			case "y/_points", "z/_points":
				want, wantSet = 1, true
			}
			vrtAssert(set == wantSet, "after the second flush column "+f.Name+" of key "+r.key+" is set iff it has data")
			vrtAssert(vrtImplies(set, vrtFloatEq(got, want)), "after the second flush column "+f.Name+" of key "+r.key+" still holds its value")
		}
	}
	vrtAssert(seen["x"] == 1 && seen["y"] == 1 && seen["z"] == 1, "after the second flush every key is on disk exactly once")
	vrtReach(reach)
}

// C13.S — the table scan as a source: when the row callback returns an error, or asks to stop,
// at a chosen row, fileStore.iterate stops there and returns that error — in the file phase and
// in the memstore phase (DESIGN §5 C13.S).
//
//zx:harness prop=C13 id=C13.S tier=quick env=fs
func zxC13Scan() {
	zxFSReset()
	fields := core.Fields{core.PointsField, zxFieldA}
	_, rs := zxTable(fields)
	zxInsert(rs, rs.memStore, "x", zxNow, map[string]float64{"a": 1}, 0, 10)
	zxInsert(rs, rs.memStore, "y", zxNow, map[string]float64{"a": 2}, 0, 20)
	rs.doProcessFlush(rs.memStore, false, false)
	zxInsert(rs, rs.memStore, "z", zxNow, map[string]float64{"a": 3}, 0, 30)
	zxInsert(rs, rs.memStore, "w", zxNow, map[string]float64{"a": 4}, 0, 40)
	// 4 rows: x, y from the file, z, w from the memstore
	mode := vrtShape("mode", 3) // 0: run to the end, 1: callback fails at row j, 2: callback stops at row j
	j := vrtShape("j", 4)
	failAt, stopAt := -1, -1
	switch mode {
	case 1:
		failAt = j
	case 2:
		stopAt = j + 1
	}
	rows, _, err := zxScan(rs, nil, rs.memStore.copy(), stopAt, failAt)
	switch mode {
	case 0:
		vrtAssert(err == nil && len(rows) == 4, "a full scan delivers all four rows without error")
	case 1:
		vrtAssert(err != nil, "an error returned by the row callback at row "+zxItoa(j)+" is returned by the scan")
		vrtAssert(len(rows) == j, "the scan stops at the failing row "+zxItoa(j))
	case 2:
		vrtAssert(err == nil, "a stop request is not an error")
		vrtAssert(len(rows) == j+1, "the scan stops after row "+zxItoa(j)+" when asked to")
	}
	vrtReach("C13.S")
}

func rsLog() golog.Logger { return golog.LoggerFor("zx") }

// C03.W — a flush rewrites every row of the previous file no matter how it is performed: plain,
// sorted (external merge sort, when a memory cap is configured), with or without the raw
// pass-through of untouched rows (every 10th flush disables it), sorted in memory or merged
// from spill files read back in short pieces: every way of flushing the same file + memstore
// leaves the same rows on disk (DESIGN §5 C03.W).
//
//zx:harness prop=C03 id=C03.W tier=quick mode=real env=fs
func zxC03FlushModes() {
	zxFSReset()
	fields := core.Fields{core.PointsField, zxFieldA}
	t, rs := zxTable(fields)
	va, vb := vrtFloat64("va"), vrtFloat64("vb")
	vrtAssume(vrtAnd(vrtFinite(va), vrtFinite(vb)))
	zxInsert(rs, rs.memStore, "x", zxNow, map[string]float64{"a": va}, 0, 10)
	zxInsert(rs, rs.memStore, "y", zxNow, map[string]float64{"a": 7}, 0, 20)
	rs.doProcessFlush(rs.memStore, false, false)
	// second generation: x is touched again, y is not (eligible for the raw pass-through), z is new
	zxInsert(rs, rs.memStore, "x", zxNow, map[string]float64{"a": vb}, 0, 30)
	zxInsert(rs, rs.memStore, "z", zxNow, map[string]float64{"a": 9}, 0, 40)
	sortMode := vrtShape("sorted", 3)
	shouldSort := sortMode > 0
	disallowRaw := vrtShape("disallowRaw", 2) == 1
	if sortMode == 1 {
		t.db.opts.MaxMemoryRatio = 0.5
	}
	if sortMode == 2 {
		// no memory to sort in: every row is spilled to its own file and the final merge reads the
		// spill files back through the row store's chunk reader; reads come back in short pieces
		t.db.opts.MaxMemoryRatio = 1e-18
		zxShortRead = 5
	}
	out, _ := zxTempFile("", "flushmodes")
	_, rowCount, err := rs.fileStore.flush(out, fields, nil, rs.memStore.offsetsBySource, rs.memStore, shouldSort, disallowRaw)
	vrtAssert(err == nil, "the flush succeeds")
	_ = rowCount
	zxFS["/data/t/filestore_99999999999999999999_5.dat"] = zxFS[zxFileName(out)]
	fs2 := &fileStore{t, rs, fields, "/data/t/filestore_99999999999999999999_5.dat"}
	got := map[string]float64{}
	n := map[string]int{}
	_, err = fs2.iterate(fields, nil, false, false, func(key bytemap.ByteMap, cols []encoding.Sequence, raw []byte) (bool, error) {
		k, _ := key.Get("k").(string)
		v, _ := zxVal(cols[1], zxFieldA)
		got[k] = v
		n[k]++
		return true, nil
	})
	vrtAssert(err == nil, "the rewritten file scans without error")
	mode := "plain"
	if shouldSort {
		mode = "sorted"
	}
	if sortMode == 2 {
		mode = "sorted through spill files"
	}
	if disallowRaw {
		mode += ", raw pass-through disabled"
	} else {
		mode += ", raw pass-through allowed"
	}
	vrtAssert(n["x"] == 1 && n["y"] == 1 && n["z"] == 1, "every key of the old file and of the memstore is in the new file exactly once ("+mode+")")
	vrtAssert(vrtFloatEq(got["x"], va+vb) && got["y"] == 7 && got["z"] == 9, "every key keeps its value ("+mode+")")
	vrtReach("C03.W")
}

// C18.M — the memstore copy that rowStore.iterate takes at the start of a scan is a snapshot:
// whatever is inserted into the live memstore afterwards (into an existing key, a new key, an
// empty memstore) shows in none of the rows the scan delivers from that copy.
//
//zx:harness prop=C18 id=C18.M tier=quick mode=real env=fs
func zxC18MemstoreCopy() {
	zxFSReset()
	fields := core.Fields{core.PointsField, zxFieldA}
	_, rs := zxTable(fields)
	npre := vrtShape("npre", 3)
	v1, v2, v3 := vrtFloat64("v1"), vrtFloat64("v2"), vrtFloat64("v3")
	vrtAssume(vrtAnd(vrtFinite(v1), vrtAnd(vrtFinite(v2), vrtFinite(v3))))
	want := map[string]float64{}
	if npre >= 1 {
		zxInsert(rs, rs.memStore, "x", zxNow, map[string]float64{"a": v1}, 0, 10)
		want["x"] = v1
	}
	if npre >= 2 {
		zxInsert(rs, rs.memStore, "y", zxNow, map[string]float64{"a": v2}, 0, 20)
		want["y"] = v2
	}
	cp := rs.memStore.copy()
	laterKey := []string{"x", "y", "z"}[vrtShape("laterKey", 3)]
	laterTS := zxNow.Add(-time.Duration(vrtShape("laterAge", 2)) * time.Second)
	zxInsert(rs, rs.memStore, laterKey, laterTS, map[string]float64{"a": v3}, 0, 30)
	rows, offs, err := zxScan(rs, nil, cp, -1, -1)
	vrtAssert(err == nil, "the scan of the snapshot succeeds")
	vrtAssert(len(rows) == len(want), "the snapshot holds exactly the rows present when it was taken ("+zxItoa(npre)+")")
	for _, r := range rows {
		w, ok := want[r.key]
		vrtAssert(ok, "the snapshot has no row for a key inserted later")
		n := r.cols[1].NumPeriods(zxFieldA.Expr.EncodedWidth())
		vrtAssert(n == 1, "a snapshot row has exactly the periods it had")
		got, set := zxVal(r.cols[1], zxFieldA)
		vrtAssert(set && vrtFloatEq(got, w), "a snapshot row keeps the value it had when the scan started")
		pts, _ := zxVal(r.cols[0], core.PointsField)
		vrtAssert(pts == 1, "a snapshot row keeps its _points")
	}
	if npre > 0 {
		want := int64(10 * npre)
		vrtAssert(offs[0] != nil && offs[0].Position() == want, "the scan reports the WAL offset of the snapshot, not of a later insert")
	}
	vrtReach("C18.M")
}

// C14.W — a truncating flush (raw pass-through disabled, as every 10th flush is) writes back, for
// every key, exactly the periods that are still inside the retention window: periods that ended
// at or before now − retention are absent from the new file, periods that end after it are kept
// with their values, and a key whose periods have all expired is absent (so it cannot reappear).
//
//zx:harness prop=C14 id=C14.W tier=quick env=fs,sum
func zxC14TruncatingFlush() {
	zxFSReset()
	fields := core.Fields{core.PointsField, zxFieldA}
	t, rs := zxTable(fields)
	t.RetentionPeriod = 10 * time.Minute // within the 1024-period window of the rounding summaries
	ages := []int{0, 2, 5} // seconds before zxNow
	for i, age := range ages {
		zxInsert(rs, rs.memStore, "x", zxNow.Add(-time.Duration(age)*time.Second), map[string]float64{"a": float64(10 + i)}, 0, int64(10+i))
	}
	zxInsert(rs, rs.memStore, "y", zxNow.Add(-5*time.Second), map[string]float64{"a": 99}, 0, 20)
	rs.doProcessFlush(rs.memStore, false, false)
	// time passes / retention is such that the boundary falls somewhere among the stored periods
	retSec := vrtShape("retentionSec", 7) + 1
	frac := time.Duration(vrtRange("retentionFrac", 0, int64(time.Second)-1))
	t.RetentionPeriod = time.Duration(retSec)*time.Second - frac
	tb := zxNow.Add(-t.RetentionPeriod)
	// new data for another key so that the flush has something to do; x and y are untouched
	zxInsert(rs, rs.memStore, "z", zxNow, map[string]float64{"a": 1}, 0, 30)
	out, _ := zxTempFile("", "truncating")
	_, _, err := rs.fileStore.flush(out, fields, nil, rs.memStore.offsetsBySource, rs.memStore, false, true)
	vrtAssert(err == nil, "the truncating flush succeeds")
	zxFS["/data/t/filestore_99999999999999999999_5.dat"] = zxFS[zxFileName(out)]
	fs2 := &fileStore{t, rs, fields, "/data/t/filestore_99999999999999999999_5.dat"}
	type per struct {
		end time.Time
		v   float64
	}
	onDisk := map[string][]per{}
	_, err = fs2.iterate(fields, nil, false, false, func(key bytemap.ByteMap, cols []encoding.Sequence, raw []byte) (bool, error) {
		k, _ := key.Get("k").(string)
		w := zxFieldA.Expr.EncodedWidth()
		for p := 0; p < cols[1].NumPeriods(w); p++ {
			v, set := cols[1].ValueAt(p, zxFieldA.Expr)
			if set {
				onDisk[k] = append(onDisk[k], per{cols[1].Until().Add(-time.Duration(p) * time.Second), v})
			}
		}
		if _, ok := onDisk[k]; !ok {
			onDisk[k] = nil
		}
		return true, nil
	})
	vrtAssert(err == nil, "the rewritten file scans")
	for i, age := range ages {
		end := zxNow.Add(-time.Duration(age) * time.Second)
		found := false
		for _, p := range onDisk["x"] {
			if p.end.Equal(end) {
				found = true
				vrtAssert(p.v == float64(10+i), "a kept period keeps its value")
			}
		}
		if end.After(tb) {
			vrtAssert(found, "a period of x that ends inside the retention window ("+zxItoa(age)+"s old) is still on disk after the truncating flush")
		} else {
			vrtAssert(!found, "a period of x that ended at or before now - retention ("+zxItoa(age)+"s old) is gone from disk after the truncating flush")
		}
	}
	_, yPresent := onDisk["y"]
	if zxNow.Add(-5 * time.Second).After(tb) {
		vrtAssert(yPresent, "key y is kept while its only period is inside the window")
	} else {
		vrtAssert(!yPresent, "key y, whose periods have all expired, is absent from disk")
	}
	vrtReach("C14.W")
}

// C14.R — "once a period has expired and a truncating flush has run (at most ten data-carrying
// flushes) it is absent from disk", across restarts: key x is stored and flushed, then expires;
// eleven further data-carrying flushes (for another key) follow, each through the real
// doProcessFlush, with the process restarted (real openRowStore on the files left behind) never,
// after every flush, or after every third flush. Afterwards x is gone from disk.
//
//zx:harness prop=C14 id=C14.R tier=quick env=fs,sum shard=restartEvery:3
func zxC14CadenceAcrossRestarts() {
	zxFSReset()
	fields := core.Fields{core.PointsField, zxFieldA}
	t, rs := zxTable(fields)
	t.RetentionPeriod = 10 * time.Minute
	zxInsert(rs, rs.memStore, "x", zxNow.Add(-5*time.Second), map[string]float64{"a": 7}, 0, 10)
	rs.doProcessFlush(rs.memStore, false, false)
	t.RetentionPeriod = 2 * time.Second // x's only period ended 5 s ago: expired from here on
	restartEvery := []int{0, 1, 3}[vrtShape("restartEvery", 3)]
	for i := 1; i <= 11; i++ {
		zxInsert(rs, rs.memStore, "z", zxNow, map[string]float64{"a": 1}, 0, int64(10+10*i))
		rs.doProcessFlush(rs.memStore, false, false)
		if restartEvery > 0 && i%restartEvery == 0 {
			rs2, offs, err := t.openRowStore(&rowStoreOptions{dir: "/data/t"})
			vrtAssert(err == nil, "the row store reopens")
			if err != nil {
				return
			}
			rs2.memStore = rs2.newMemStore(offs) // first statement of processInserts
			t.rowStore, rs = rs2, rs2
		}
	}
	rows, _, err := zxScan(rs, nil, nil, -1, -1)
	vrtAssert(err == nil, "the disk scans")
	xOnDisk := false
	for _, r := range rows {
		if r.key == "x" {
			xOnDisk = true
		}
	}
	vrtAssert(!xOnDisk, "an expired key is gone from disk after twelve data-carrying flushes (process restarted after every "+zxItoa(restartEvery)+" flushes; 0 = never)")
	vrtReach("C14.R")
}
