package zenodb

// Integer summaries of encoding.RoundTimeUntilUp/Down for harnesses of this package (the same
// summaries as in package encoding, proved equal to the float-based originals by harness C07.R
// inside a 1024-period window; each call carries the window obligation).

import (
	"time"

	"github.com/getlantern/zenodb/encoding"
)

//zx:group sum
//zx:summary github.com/getlantern/zenodb/encoding.RoundTimeUntilUp zxRoundTimeUntilUpSum
//zx:summary github.com/getlantern/zenodb/encoding.RoundTimeUntilDown zxRoundTimeUntilDownSum

const zxSumWindow = 1024

func zxFloorDiv(a, b int64) int64 {
	q := a / b
	if a%b != 0 && a < 0 {
		q--
	}
	return q
}

func zxCeilDiv(a, b int64) int64 {
	q := a / b
	if a%b != 0 && a > 0 {
		q++
	}
	return q
}

func zxRoundTimeUntilUpSum(ts time.Time, resolution time.Duration, until time.Time) time.Time {
	if ts.IsZero() {
		return ts
	}
	if until.IsZero() {
		return encoding.RoundTimeUp(ts, resolution)
	}
	delta := until.Sub(ts)
	vrtAssert(delta >= -zxSumWindow*resolution && delta <= zxSumWindow*resolution, "RoundTimeUntilUp argument inside the verified summary window")
	return until.Add(-time.Duration(zxFloorDiv(int64(delta), int64(resolution))) * resolution)
}

func zxRoundTimeUntilDownSum(ts time.Time, resolution time.Duration, until time.Time) time.Time {
	if ts.IsZero() {
		return ts
	}
	if until.IsZero() {
		return encoding.RoundTimeDown(ts, resolution)
	}
	delta := until.Sub(ts)
	vrtAssert(delta >= -zxSumWindow*resolution && delta <= zxSumWindow*resolution, "RoundTimeUntilDown argument inside the verified summary window")
	return until.Add(-time.Duration(zxCeilDiv(int64(delta), int64(resolution))) * resolution)
}
