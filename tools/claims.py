# claim(pid, text, level_note, design_ref)
BOUND = "Bounds and per-harness parameters are written into evidence.coverage.harnesses[]; nothing is claimed outside them. Trusted: go/packages+go/ssa, the zx interpreter and its models (time, math, sync, fmt, golog), cvc5 (z3 cross-check where stated), the harness oracles. "

claim("C01",
      "Bounded symbolic execution of the real code: (E.A) for 26 expression trees of the aggregate grammar, folding <=K symbolic points with the real Update gives a state whose Get equals a reference aggregate computed from the raw points; (C01.B) the real bytetree Update/Walk keeps one node per distinct key for any prefix/equal/diverging relation between symbolic keys; (I.A) real table.insert hands each accepted numeric point to the row store exactly once under the group-by projection and never an expired or filtered one. Each obligation is an SMT validity query; counterexamples are replayed natively.",
      BOUND + "K<=2 points quick (3 thorough), keys <=3 bytes, 3 updates; values finite, compared on the reals (real mode); PERCENTILE, the WAL, the processInserts goroutine and flush timing are outside.",
      "DESIGN.md §5 C01")
claim("C02",
      "Crash-point obligation decided symbolically over a file-system model: real doProcessFlush / writeOffsets run until a solver-chosen FS operation, unsynced data survives only partially, then real openRowStore + fileStore.iterate must find exactly the pre-flush or the post-flush (rows, offset) pair. Plus: wal.Offset.After is a strict total order, Advance/LimitAge never lower an offset, writeOffsets/readOffsets round-trip (symbolic offsets).",
      BOUND + "FS and snappy are models written in Go beside the harness (zz_fsmodel.go): Sync durable, Rename/Remove atomic, torn unsynced suffix in {0, half, all}; <=2 inserts over <=2 keys, one optional earlier flush, one crash per run; asynchronous kills between machine instructions, WAL durability, repeated crash rounds and removeOldFiles are outside. Replay grade R2 (concrete re-execution in the interpreter).",
      "DESIGN.md §5 C02")
claim("C03",
      "Real fileStore.iterate over a file written by the real flush plus a memstore copy, for every pair of (old, new) schemas of a pool and every requested field sub-list: each key with a requested column on disk or in memory is delivered exactly once with file (+) memory per column and the scan never ends early without an error.",
      BOUND + "2 keys on disk, 2 in memory, schemas from a pool of 3, 6 requested sub-lists, symbolic finite values (real mode); FS/snappy models as for C02; timer-driven and sorted flushes, restarts, PERCENTILE are outside. Replay grade R2.",
      "DESIGN.md §5 C03")
claim("C04",
      "Freeze monitors on the real read-path kernels: Sequence.Truncate and Sequence.Merge never change a byte of their operands, and a Tree.Copy taken for a scan is unaffected by later updates of the live tree, for every valid sequence (every accumulator byte symbolic), absolute time, alignment and bound inside the limits.",
      BOUND + "N<=3 periods (Truncate) / 2 (Merge) quick; resolutions 2^30 ns and 1 s; times in [2^40,2^62) ns; RoundTimeUntilUp/Down replaced by integer summaries inside a 1024-period window; the SQL front end and PERCENTILE are outside.",
      "DESIGN.md §5 C04")
claim("C05",
      "Accumulator homomorphism and sequence algebra on the real code: for 26 expression trees Merge(state(A),state(B)) reports the aggregate of A+B for every split, Update/Merge/Get consume exactly EncodedWidth bytes and never write their operands; Sequence.Merge places the per-period accumulator merge for any alignment, gap and overlap, is commutative and associative in value; Truncate keeps exactly the periods inside (asOf, until] byte-identical.",
      BOUND + "N<=2 periods per sequence for Merge (3 for Truncate), spread <=2 periods quick; accumulator bytes fully symbolic with finite floats; sums compared on the reals where the property says 'up to reassociation'; PERCENTILE, NaN/Inf and distances beyond 1024 periods are outside.",
      "DESIGN.md §5 C05")
claim("C07",
      "Time windows decided at three levels of the real code: (T) Sequence.Truncate keeps exactly the periods inside (asOf, until] byte-identical for symbolic on/off-grid bounds; (C07.F) Flatten(Group(src,{AsOf,Until})) emits exactly the stored periods inside the window for a symbolic absolute time; (C07.Q) the real planner with an unaligned symbolic clock resolves relative and absolute ASOF/UNTIL to exactly the periods whose start lies in [asOf_raw, until_raw); (C07.R, C01.R) the float-based RoundTimeUntilUp/Down equal their integer summaries bit-precisely and RoundTimeUp/Down meet their specification for every instant.",
      BOUND + "N<=3/4 periods, 3 stored periods at the planner level, 8 time-range clause shapes; |until-ts| <= 1024 periods for the rounding proofs; RFC3339 parsing is done by the native time.Parse (engine model on concrete strings).",
      "DESIGN.md §5 C07")
claim("C06",
      "Coarser grouping decided at three levels: (S) real Sequence.SubMerge folds two arbitrary fine sequences into coarse periods anchored at until: each fine period inside (asOf, until] contributes to exactly the coarse period containing it, accumulators merged (AVG from totals and counts); (C06.G) real core.Group keys rows by the projection of symbolic dims, merging equal projections, every row in exactly one output row; (C06.Q) ten GROUP BY shapes (dim subsets, *, _, period multiples) through the real planner equal a reference aggregation computed from the raw symbolic rows.",
      BOUND + "scale 2-3, <=2 (quick) fine periods per sequence plus a second sequence of 1 period, 2-3 rows with dims from small pools, 3 stored periods; crosstab and stride are outside.",
      "DESIGN.md §5 C06")
claim("C08",
      "Filters through the real planner over symbolic tables: (C08.H) HAVING returns exactly the rows of the HAVING-free query whose reported values satisfy the predicate, helper column hidden (7 shapes); (C08.W) WHERE returns what the WHERE-free query returns over only the matching rows, including rows with missing dimensions (9 predicates); (C08.I) dim IN (sub-query) equals IN over the literal list computed from the raw rows (4 sub-query shapes with WHERE/HAVING).",
      BOUND + "2-3 rows, dims x in {absent,1,2}, y in {absent,1,2}, 1-2 periods, values symbolic finite reals (real mode); goexpr functions needing redis/geo, LIKE patterns and nested FROM-sub-queries beyond the corpus are outside.",
      "DESIGN.md §5 C08")
claim("C11",
      "Translation validation: for 24 query shapes x 3 partition-key sets x 1-2 partitions, the real planner.Plan builds the local plan and the cluster plan (pushdown or leader-side regroup; partitions answered by the real local planner over a key-respecting split, unflattened when asked); both are executed over the same symbolic rows and must produce the same fields and the same rows (same order where ORDER BY decides it).",
      BOUND + "2 rows (3 thorough), 1 period quick, values symbolic reals; programs are enumerated (shape variables), data are symbolic; known finding D17 (OFFSET pushed down and applied twice) is listed in known_findings.json; the textual 'group by' cut (D7) is outside the corpus.",
      "DESIGN.md §5 C11", cat="translation_validation", technique="translation validation by bounded symbolic execution of planner.Plan + core operators (go/ssa), SMT equality of result rows (cvc5)")
claim("C09",
      "orderedRows.Less equals the lexicographic comparison of the key list for two fully symbolic rows and every key list up to length L over {_time, f1, f2, d1, d2} x {asc, desc}; the real sorter (sort.Sort) emits a sorted permutation; Limit(Offset(src,m),n) emits exactly rows m..min(k,m+n)-1 for symbolic m, n.",
      BOUND + "L<=2 keys quick (3 thorough), 3 rows for the sorter, k<=4 source rows, every plan iterated twice; (C09.P) ORDER BY + LIMIT n OFFSET m for n in 0..3, m in {none,0,1,2} through the real planner equals that slice of the unlimited ordered result; NaN sort keys and dims of different Go types between rows are outside.",
      "DESIGN.md §5 C09")
claim("C10",
      "Routing agreement on the real code: for a WAL entry with symbolic dims the leader's mapPartitionRequest sends exactly one result with 0<=pid<P and, among P follower tables, table.insert(isFollower) accepts the entry in exactly the partition the leader computed.",
      BOUND + "P in 1..5, partition keys in {none, {a}, {b,a}}, dims a (2-byte string) and b (int64) present or absent; murmur3 replaced by a deterministic polynomial hash (only determinism and Reset are used); plan equivalence is the C11.V harness (also run here) and partitionRowMapper is decided over field-list pairs of a pool (C10.M); live nodes and gRPC fan-out are outside.",
      "DESIGN.md §5 C10")
claim("C12",
      "Follower-side dedup of the real doFollowLeaders callback: with two tables whose prior offsets are symbolic and three deliveries with symbolic offsets (replays, duplicates, gaps are order relations chosen by the solver), each table is handed an entry iff it is After everything that table accepted, in order, independently; makeFollows never requests an earliest offset above a table's own; (C12.S) the real Server.followSource reconnect loop, with the stream breaking after solver-chosen numbers of deliveries and an insert failing at a chosen delivery, re-Follows exactly at the last successfully inserted offset, so the accepted entries are 1,2,3,... without gap or repetition; Offset order lemmas as in C02.",
      BOUND + "one fixed run-to-block schedule (T3): deliveries first, then the per-table consumers; 3 connections; the leader-side follower bookkeeping (processFollowers / onFollowerJoined, inline next to live WAL readers), restarts from crash images and redundant-follower convergence are outside.",
      "DESIGN.md §5 C12")
claim("C13",
      "Incompleteness is reported: real web.handler.doQuery returns an error whenever its source scan ended early (source failure at any row, or its own response-size callback), and real fileStore.iterate returns the callback's error / stops exactly at the chosen row in the file phase and in the memstore phase.",
      BOUND + "<=3 rows (web), 4 rows (2 file + 2 memstore); DB.Query, hllpp, context.WithTimeout and the file system are harness stubs; core operators under a symbolic clock and queryCluster bookkeeping are not yet encoded. Replay grade R2.",
      "DESIGN.md §5 C13")
claim("C14",
      "Retention on the real kernels: table.insert never hands an expired point to the row store and never rejects a live one for age (symbolic age); Sequence.Merge keeps every in-window period of both operands; Truncate(asOf) removes exactly the expired periods.",
      BOUND + "N<=2/3 periods; getQueryable's window and the every-10th truncating flush are not yet encoded.",
      "DESIGN.md §5 C14")
claim("C15",
      "Schema change on the real scan: for every (old, new) schema pair of the pool and every requested sub-list, retained fields keep their stored values, added fields are empty on disk and take only values inserted after the change, no key is lost or duplicated (same harness as C03.I).",
      BOUND + "schemas from a pool of 3 (add, reorder), FS/snappy models, the fieldUpdates hand-over replicated in the harness because it is inline in the processInserts select loop; restarts outside. Replay grade R2.",
      "DESIGN.md §5 C15")
claim("C16",
      "No panic on malformed input: ~400 SQL statements assembled from clause fragments by shape variables (non-SELECT statements, wrong arities and argument types, unknown functions, sub-queries, time ranges) run through the real sql.Parse, sql.TableFor and planner.Plan (standalone and cluster) without a Go panic; real table.insert over an arbitrary symbolic buffer of <=20 bytes returns and a following valid entry is still inserted; mapPartitionRequest always sends its result.",
      BOUND + "the SQL part is bounded-exhaustive over the listed shapes (the solver enumerates shape choices), not a statement about all strings; the yacc parser on raw symbolic bytes and JSON decoding are outside.",
      "DESIGN.md §5 C16")
claim("C17",
      "Coalesced scans on the real doProcessIterations: each of 2-3 queries with solver-chosen field lists, early stops, own errors and own (expired/far) deadlines receives exactly the rows and the error it would receive alone, with its own fields in its own order.",
      BOUND + "2 queries x 2 rows quick (3 x 3 thorough); rowStore.iterate and context.WithDeadline are harness stubs; whether two queries are coalesced (timing) is outside. Replay grade R2.",
      "DESIGN.md §5 C17")
claim("C18",
      "Snapshot isolation reduced to sequential aliasing: after the real Tree.Copy, no later Update of the live tree (same key and period, same key other period, other key; keys and values symbolic) changes any row seen through the copy.",
      BOUND + "2 keys <=2 bytes, one later update; flushes during a scan and file pinning are outside.",
      "DESIGN.md §5 C18")
claim("C19",
      "Credential lattice decided symbolically on the real handlers: rpc server.Query/Follow/HandleRemoteQueries touch the DB only when a presented password equals the configured one (symbolic strings, 0-2 presented); web authenticate accepts only OAuth-unconfigured, the static token, or a decodable, unexpired, in-org session (symbolic clock and expiry); sqlQuery/cachedQuery answer 403 and touch nothing when authenticate says no.",
      BOUND + "mock grpc.ServerStream with real grpc metadata; securecookie decoding, the GitHub org lookup and header/cookie access are nondeterministic stubs; cryptography, OAuth round trips and TLS are outside.",
      "DESIGN.md §5 C19")
