# claim(pid, text, level_note, design_ref)
claim("C04",
      "Bounded symbolic execution of the real Sequence.Truncate with a freeze monitor on the operand: for every valid sequence (<= N periods, every accumulator byte symbolic), every absolute time and every asOf/until (zero, on-grid or off-grid) no store changes a byte of the operand. Holds within the bounds or a concrete counterexample is replayed natively.",
      "Bounds: N<=3 periods quick / 5 thorough; resolutions 2^30 ns and 1 s (+7 ns thorough); times in [2^40,2^62) ns; RoundTimeUntilUp/Down replaced by integer summaries inside a 1024-period window. Trusted: go/ssa, the zx interpreter and its models, cvc5.",
      "DESIGN.md §5 C04")
