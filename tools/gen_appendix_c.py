#!/usr/bin/env python3
"""Regenerates 'Appendix C' of DESIGN.md from seeded/*/meta.json."""
import json, glob, os, re
rows = []
for m in sorted(glob.glob('/verif/seeded/*/meta.json')):
    d = json.load(open(m))
    caught = d.get('caught_by') or '—'
    note = (d.get('note') or '').strip()
    if d['detected'] == 'no':
        caught = '— (not detected)'
    cell = caught + (' — ' + note if note else '')
    rows.append((d['id'], d['property'], ', '.join(d['files_changed']), d['detected'], cell.replace('|', '/')))
n = len(rows)
yes = sum(1 for r in rows if r[3] == 'yes')
aft = sum(1 for r in rows if r[3] == 'after-strengthening')
no = [r[0] for r in rows if r[3] == 'no']
out = ["## Appendix C — seeded changes and the checks that catch them", "",
       "Each row is a change produced by an independent sub-agent (property text and a scratch worktree only; the second wave was also told which changes already existed), confirmed with `tools/verify_mutant.sh` (it builds, the existing tests of the touched packages and of the root package still pass, the demonstration fails with the change and passes without it) and run against the quick checks in a scratch worktree (`tools/try_mutant_wt.sh`). `seeded/<id>/` holds the patch, the demonstration, the agent's notes and `meta.json`.", "",
       "| id | property | files | detected | caught by |", "|----|----------|-------|----------|-----------|"]
for r in rows:
    out.append("| %s | %s | %s | %s | %s |" % r)
out += ["", "Totals: %d kept, %d detected as the checks stood, %d after strengthening, %d missed%s." % (n, yes, aft, len(no), (' (' + ', '.join(no) + ')') if no else '')]
p = '/verif/DESIGN.md'
s = open(p).read()
i = s.index('## Appendix C — seeded changes')
s = s[:i] + '\n'.join(out) + '\n'
open(p, 'w').write(s)
print(n, yes, aft, no)
