#!/usr/bin/env python3
"""Regenerates /verif/MANIFEST.json from the table below (kept in one place so it stays valid)."""
import json, sys, os

ALL = ["C%02d" % i for i in range(1, 21)]

# property -> (category, text, note, design_ref, technique)
CLAIMS = {}

def claim(pid, text, note, ref, cat="model_checking",
          technique="bounded symbolic execution of the real go/ssa code; SMT validity queries (cvc5, z3 cross-check)"):
    CLAIMS[pid] = (cat, text, note, ref, technique)

NOT_APPLICABLE = {
    "C20": "the RPC codec is reflect/unsafe-driven msgpack inside gRPC+snappy framing; no integer/byte kernel of zenodb's own to encode, and a hand model of msgpack would make the model the subject (DESIGN.md §6)",
}

exec(open(os.path.join(os.path.dirname(__file__), "claims.py")).read())

checks = []
for pid in ALL:
    if pid not in CLAIMS:
        continue
    cat, text, note, ref, tech = CLAIMS[pid]
    checks.append({
        "property_id": pid,
        "quick_cmd": "bin/zx check %s --tier quick" % pid,
        "thorough_cmd": "bin/zx check %s --tier thorough" % pid,
        "evidence_file": "/verif/evidence/%s.json" % pid,
        "replay_cmd_template": "bin/zx replay {path}",
        "engine": "zx",
        "level_claimed": {"category": cat, "text": text, "design_ref": ref},
        "level_note": note,
        "technique": tech,
    })

na = []
for pid in ALL:
    if pid in CLAIMS:
        continue
    na.append({"property_id": pid, "reason": NOT_APPLICABLE.get(pid, "no solver-based check built yet for this property in this tree (see DESIGN.md §5 for the plan); not claimed")})

manifest = {
    "version": 1,
    "setup_cmd": "cd /verif/engine && GOFLAGS=-mod=mod GOPROXY=off GOSUMDB=off GOTOOLCHAIN=local go build -o /verif/bin/zx . && cd /verif && bin/zx selftest",
    "hooks": {
        "guard": "verif",
        "enable": "none needed: harness files are injected with go/packages overlays (engine) and go test -overlay (native replay); /repo is not modified by the checks",
        "baseline_off_cmd": "cd /repo && GOFLAGS=-mod=mod GOPROXY=off go test -vet=off -count=1 -timeout 25m ./...",
        "source_commits": [],
        "add_only": True,
    },
    "engines": [{
        "name": "zx",
        "path": "/verif/engine",
        "serves_properties": sorted(CLAIMS.keys()),
        "kind_free_text": "mixed concrete/symbolic interpreter over go/ssa (fork of x/tools go/ssa/interp) emitting SMT-LIB2 to cvc5/z3; re-execution based path exploration; native replay of models with go test -overlay",
    }],
    "checks": checks,
    "not_applicable": na,
    "notes": "Every check rebuilds the SSA from /repo's working tree on each run. Exit 0 = every obligation explored held (INCONCLUSIVE lines are never counted as discharged); exit 1 + VIOLATION line = a counterexample that reproduced on replay; exit 2 = infrastructure error. Known findings: /verif/known_findings.json.",
}
json.dump(manifest, open("/verif/MANIFEST.json", "w"), indent=1)
print("wrote MANIFEST.json: %d checks, %d not_applicable" % (len(checks), len(na)))
