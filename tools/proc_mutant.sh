#!/bin/bash
# usage: tools/proc_mutant.sh <base> <PROP> <mutN> [jobs] [extra zx args]
# verifies a sub-agent's mutant (verify_mutant.sh) and runs the property's quick check against it in the
# scratch worktree <base>/<PROP>; logs go to <base>/<PROP>_out/<mutN>.{verify,check}.txt
set -u
base=$1; prop=$2; mut=$3; jobs=${4:-6}; shift 4 2>/dev/null || shift 3
out=$base/${prop}_out; wt=$base/$prop
export TMPDIR=$(mktemp -d /tmp/pm_XXXX)
sed "s|/tmp/vm_|$TMPDIR/vm_|g" /verif/tools/verify_mutant.sh > $TMPDIR/vm.sh; chmod +x $TMPDIR/vm.sh
$TMPDIR/vm.sh $wt $out/$mut.diff $out/${mut}_demo_test.go > $out/$mut.verify.txt 2>&1
tail -1 $out/$mut.verify.txt
cd $wt && git checkout -q -- . && git clean -fdq && git apply $out/$mut.diff || { echo "apply failed"; exit 2; }
cd /verif
ZX_REPO=$wt timeout 3000 bin/zx check $prop --jobs $jobs "$@" > $out/$mut.check.txt 2>&1
rc=$?
git -C $wt checkout -q -- .
echo "== $prop $mut rc=$rc"
grep -E "^VIOLATION|^ERROR|INCONCLUSIVE" $out/$mut.check.txt | sed 's/replay=[^ ]* //' | cut -c1-300 | head -5
tail -1 $out/$mut.check.txt | cut -c1-200
rm -rf $TMPDIR
