#!/bin/bash
# runs every claimed quick check sequentially, printing a one-line summary per property
cd /verif
for p in $(python3 -c "import json; print(' '.join(c['property_id'] for c in json.load(open('MANIFEST.json'))['checks']))"); do
  s=$(date +%s); out=$(timeout 3000 bin/zx check $p 2>&1); rc=$?; e=$(( $(date +%s) - s ))
  echo "$p rc=$rc ${e}s :: $(echo "$out" | tail -1 | cut -c1-220)"
  echo "$out" | grep -E "INCONCLUSIVE|VIOLATION|ERROR" | cut -c1-250 | head -4
  echo "$out" | grep "^  " | cut -c1-200
done
