#!/bin/bash
# usage: tools/run_thorough.sh <jobs> C09 C13 ...   (sequential thorough runs, one summary line each)
cd /verif
jobs=$1; shift
for p in "$@"; do
  s=$(date +%s); out=$(timeout 14000 bin/zx check $p --tier thorough --jobs $jobs 2>&1); rc=$?; e=$(( $(date +%s) - s ))
  echo "$p thorough rc=$rc ${e}s :: $(echo "$out" | tail -1 | cut -c1-220)"
  echo "$out" | grep -E "INCONCLUSIVE|VIOLATION|ERROR|KNOWN" | cut -c1-250 | head -6
  echo "$out" | grep "^  " | cut -c1-200
done
