#!/usr/bin/env python3
"""usage: save_seeded.py <PROP> <mutN> <id> <caught_by> <detected yes|no|after-strengthening> [note]"""
import sys, os, json, shutil, subprocess
prop, mut, sid, caught, detected = sys.argv[1:6]
note = sys.argv[6] if len(sys.argv) > 6 else ""
base = os.environ.get("SEED_BASE", "/tmp/wt")
src = "%s/%s_out" % (base, prop)
dst = "/verif/seeded/%s" % sid
os.makedirs(dst, exist_ok=True)
shutil.copy(os.path.join(src, mut + ".diff"), os.path.join(dst, "patch.diff"))
demo = os.path.join(src, mut + "_demo_test.go")
shutil.copy(demo, os.path.join(dst, "demo_test.go.txt"))
md = open(os.path.join(src, mut + ".md")).read()
shutil.copy(os.path.join(src, mut + ".md"), os.path.join(dst, "agent_notes.md"))
pk = [l for l in open(demo) if l.startswith("package ")][0].split()[1]
if pk.endswith("_test"):
    pk = pk[:-5]
d = {"zenodb": ".", "rpcserver": "rpc/server"}.get(pk, pk)
ver = subprocess.run(["/verif/tools/verify_mutant.sh", base + "/" + prop, os.path.join(src, mut + ".diff"), demo], capture_output=True, text=True).stdout.strip().splitlines()[-1]
meta = {
    "id": sid,
    "property": prop,
    "origin": "independent sub-agent given only the property text and a scratch worktree of /repo (HEAD with the fix: commits)",
    "files_changed": sorted(set(l[6:].strip() for l in open(os.path.join(dst, "patch.diff")) if l.startswith("+++ b/"))),
    "demo": {"file": "demo_test.go.txt", "copy_into_package_dir": d, "run": "go test -vet=off -count=1 -run Test ./%s" % d},
    "needs_to_manifest": md.strip()[:1500],
    "confirmed_by_me": {"command": "tools/verify_mutant.sh <scratch worktree> <patch> <demo>", "result": ver,
                        "meaning": "patch applies and builds; go test of the touched packages and of the root package still pass with it (encoding's rand-based TestSequenceOnly, flaky on the unchanged tree, skipped); demo fails with the patch and passes without"},
    "checks_run": "git apply in a scratch worktree, ZX_REPO=<worktree> bin/zx check %s (quick tier), git checkout -- ." % prop,
    "detected": detected,
    "caught_by": caught,
    "note": note,
}
json.dump(meta, open(os.path.join(dst, "meta.json"), "w"), indent=1)
print(sid, ver)
