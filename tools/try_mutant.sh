#!/bin/bash
# usage: tools/try_mutant.sh <PROP> <diff> [extra zx check args...]
# applies the diff to /repo, runs the quick check of the property, undoes the diff.
set -u
prop=$1; diff=$2; shift 2
cd /repo || exit 2
if ! git diff --quiet; then echo "/repo is dirty"; exit 2; fi
git apply "$diff" || { echo "diff does not apply"; exit 2; }
cd /verif
timeout 2400 bin/zx check "$prop" "$@" > /tmp/mut_out.txt 2>&1
rc=$?
git -C /repo checkout -- .
echo "rc=$rc"
grep -E "^VIOLATION|^KNOWN|^ERROR|INCONCLUSIVE" /tmp/mut_out.txt | sed 's/replay=[^ ]* //' | cut -c1-260 | head -8
tail -1 /tmp/mut_out.txt | cut -c1-200
git -C /verif checkout -- evidence 2>/dev/null
exit 0
