#!/bin/bash
# usage: tools/try_mutant_wt.sh <PROP> <worktree> <diff> [extra zx check args...]
# applies the diff inside a scratch worktree and runs the quick check against it (ZX_REPO).
set -u
prop=$1; wt=$2; diff=$3; shift 3
cd "$wt" || exit 2
git checkout -q -- . ; git clean -fdq
git apply "$diff" || { echo "diff does not apply"; exit 2; }
cd /verif
out=/tmp/mut_$(basename $wt)_$(basename $diff).txt
ZX_REPO=$wt timeout 3000 bin/zx check "$prop" "$@" > $out 2>&1
rc=$?
git -C "$wt" checkout -q -- .
echo "== $prop $(basename $diff) rc=$rc"
grep -E "^VIOLATION|^KNOWN|^ERROR|INCONCLUSIVE" $out | sed 's/replay=[^ ]* //' | cut -c1-260 | head -6
tail -1 $out | cut -c1-200
