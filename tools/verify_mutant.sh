#!/bin/bash
# usage: tools/verify_mutant.sh <worktree> <diff> <demo_test.go>
# confirms: diff applies & builds; touched packages' tests + root still pass; demo fails with, passes without.
set -u
export GOFLAGS=-mod=mod GOPROXY=off GOSUMDB=off GOTOOLCHAIN=local
wt=$1; diff=$2; demo=$3
cd "$wt" || exit 2
git checkout -q -- . ; git clean -fdq
pkgname=$(grep -m1 '^package ' "$demo" | awk '{print $2}' | sed 's/_test$//')
case "$pkgname" in
  zenodb) dir=. ;; rpcserver) dir=rpc/server ;; *) dir=$pkgname ;;
esac
touched=$(grep '^+++ b/' "$diff" | sed 's|+++ b/||' | xargs -n1 dirname | sort -u | sed 's|^\.$||' )
git apply "$diff" || { echo "RESULT apply-failed"; exit 1; }
go build ./... > /tmp/vm_build.txt 2>&1 || { echo "RESULT build-failed"; git checkout -q -- .; exit 1; }
suite_ok=yes
for d in $touched ""; do
  p="./$d"; [ -z "$d" ] && p="."
  [ "$p" = "./server" ] && continue
  if ! go test -vet=off -count=1 -skip TestSequenceOnly "$p" > /tmp/vm_suite.txt 2>&1; then suite_ok="no($p)"; fi
done
cp "$demo" "$dir/zz_demo_test.go"
names=$(grep -oE '^func (Test[A-Za-z0-9_]+)' "$demo" | awk '{print $2}' | paste -sd'|')
go test -vet=off -count=1 -run "^($names)\$" "./$dir" > /tmp/vm_demo_with.txt 2>&1; with=$?
git checkout -q -- . 
go test -vet=off -count=1 -run "^($names)\$" "./$dir" > /tmp/vm_demo_without.txt 2>&1; without=$?
rm -f "$dir/zz_demo_test.go"; git clean -fdq
echo "RESULT suite_passes_with_mutation=$suite_ok demo_with_mutation_exit=$with demo_without_exit=$without dir=$dir"
